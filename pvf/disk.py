"""pvf.disk -- symbolic file system for pysyncobj.journal / serializer: files are Blob ropes,
mmap is slice read / slice assignment on the rope, every primitive write is logged so that a
crash cut (state after the first c primitives) can be taken.  struct / pickle are stubbed by
total functions on blobs (pack/unpack and dumps/loads are mutually inverse, anything else is
'garbage').  With concrete inputs the same layer carries literal bytes and uses the real
struct / pickle, so that one harness serves exploration and replay.
"""
import struct as real_struct

import z3

from . import core
from .blob import Blob, S, symlen, symint, _conc
from .core import SymInt

import pysyncobj.journal as J
import pysyncobj.pickle as real_pickle


class GarbageRead(Exception):
    """the code decoded bytes that no encoder produced (e.g. payload bytes read as a size field)"""


class FS:
    def __init__(self, concrete):
        self.concrete = concrete
        self.files = {}
        self.log = []          # (description, snapshot of files after the primitive)
        self.ints = {}         # origin -> (width, value)   [symbolic mode]
        self.pickles = {}      # origin -> object
        self.serial = 0
        self.recording = True
        self.handles = []

    def prim(self, what):
        if self.recording:
            self.log.append((what, dict(self.files)))

    def snapshot(self, c):
        """files after the first c primitives of the log"""
        return dict(self.log[c - 1][1]) if c > 0 else dict(self.base)

    def mark(self):
        """start of the operation under test: primitives before this are not crash points"""
        self.base = dict(self.files)
        self.log = []

    def fresh_origin(self, kind):
        self.serial += 1
        return (kind, self.serial)


CUR = None      # current FS


class FakeFile:
    """file handle with a user-space write buffer: written data reaches the file (the directory entry the handle currently
    belongs to, renames followed) only on flush() / close(); a kill loses what is still buffered"""

    def __init__(self, name, mode='r'):
        self.name, self.mode, self.pos, self.buf, self.closed = name, mode, 0, Blob(), False
        if 'w' in mode:
            CUR.files[name] = Blob()
            CUR.prim('create ' + name)
        elif 'a' in mode:
            CUR.files.setdefault(name, Blob())
        elif name not in CUR.files:
            raise IOError(2, 'No such file', name)
        CUR.handles.append(self)

    def write(self, data):
        self.buf = self.buf + Blob.coerce(data)

    def flush(self):
        if self.buf.segs and self.name in CUR.files:
            CUR.files[self.name] = CUR.files[self.name] + self.buf
            CUR.prim('flush ' + self.name)
        self.buf = Blob()

    def read(self, n=None):
        f = CUR.files[self.name]
        if n is None:
            out = f[self.pos:]
            self.pos = f.slen()
        else:
            out = f[self.pos:self.pos + n]
            self.pos = self.pos + out.slen()
        return out if not CUR.concrete else out.tobytes()

    def fileno(self):
        return self.name

    def close(self):
        if not self.closed:
            self.flush()
            self.closed = True

    def __enter__(self):
        return self

    def __exit__(self, *a):
        self.close()
        return False


def _rename(a, b):
    CUR.files[b] = CUR.files.pop(a)
    for h in CUR.handles:
        if h.name == a and not h.closed:
            h.name = b
    CUR.prim('rename %s -> %s' % (a, b))


class FakeMmap:
    def __init__(self, name, n):
        self.name = name
        if n == 0 and not bool(CUR.files[getattr(name, 'name', name)].slen() > 0):
            raise ValueError('cannot mmap an empty file')          # as the OS does for length 0 = whole file

    def size(self):
        return CUR.files[self.name].slen()

    def resize(self, n):
        n = S(symint(n))
        cur = self.size()
        if n > cur:
            CUR.files[self.name] = CUR.files[self.name] + Blob.fresh(CUR.fresh_origin('zero'), n - cur)
        else:
            CUR.files[self.name] = CUR.files[self.name][:n]
        CUR.prim('resize %s' % self.name)

    def __getitem__(self, s):
        return CUR.files[self.name][s]

    def __setitem__(self, s, v):
        f = CUR.files[self.name]
        n = f.slen()
        a, b = S(s.start), S(s.stop)
        if b > n:
            b = n
        if a > b:
            a = b
        v = Blob.coerce(v)
        if not (b - a == v.slen()):
            raise IndexError('mmap slice assignment is wrong size')
        CUR.files[self.name] = f[:a] + v + f[b:]
        CUR.prim('mmap-write %s' % self.name)

    def flush(self):
        pass

    def close(self):
        pass


class _MmapMod:
    mmap = FakeMmap


_W = {'I': 4, 'Q': 8, 'i': 4}


def _fmt(fmt):
    return [(_W[c], c) for c in fmt if c in _W]


class FakeStruct:
    error = real_struct.error

    @staticmethod
    def pack(fmt, *xs):
        out = Blob()
        for (w, c), x in zip(_fmt(fmt), xs):
            if CUR.concrete:
                out = out + Blob.lit(real_struct.pack('<' + c, int(x)))
            else:
                o = CUR.fresh_origin('int')
                CUR.ints[o] = (w, x)
                out = out + Blob.fresh(o, w)
        return out

    @staticmethod
    def unpack(fmt, blob):
        blob = Blob.coerce(blob)
        res, pos = [], 0
        fields = _fmt(fmt)
        total = sum(w for w, _ in fields)
        if not (blob.slen() == total):
            raise real_struct.error('unpack requires a buffer of %d bytes' % total)
        for w, c in fields:
            piece = blob[pos:pos + w]
            pos += w
            if CUR.concrete:
                res.append(real_struct.unpack('<' + c, piece.tobytes())[0])
                continue
            so = piece.sole_origin()
            if so is not None and so[0] in CUR.ints and bool(so[1] == 0) and bool(so[2] == w):
                res.append(CUR.ints[so[0]][1])
            elif so is not None and so[0][0] == 'zero':
                res.append(0)
            elif so is not None and so[0][0] == 'lit':
                res.append(real_struct.unpack('<' + c, piece.tobytes())[0])
            else:
                raise GarbageRead('decoding %r as an integer' % piece)
        return tuple(res)


def fake_dumps(obj, protocol=None):
    if CUR.concrete:
        return real_pickle.dumps(obj)
    o = CUR.fresh_origin('pickle')
    CUR.pickles[o] = dict(obj) if isinstance(obj, dict) else obj
    size = SymInt(z3.Int('pk%d' % o[1]), 1, 64)
    core.CTX.add(size.e >= 1, size.e <= 64)
    return Blob.fresh(o, size)


def fake_loads(data):
    if CUR.concrete:
        return real_pickle.loads(data if isinstance(data, bytes) else Blob.coerce(data).tobytes())
    data = Blob.coerce(data)
    so = data.sole_origin()
    if so is not None and so[0] in CUR.pickles and bool(so[1] == 0) and data.whole(so[0], None) and \
            bool(data.slen() == Blob.fresh(so[0], so[2]).slen()):
        return CUR.pickles[so[0]]
    raise real_pickle.pickle.UnpicklingError('not a pickle produced by dumps')


class _Path:
    @staticmethod
    def exists(n):
        return n in CUR.files

    isfile = exists

    @staticmethod
    def getsize(n):
        if n not in CUR.files:
            raise OSError(2, 'No such file or directory', n)
        return CUR.files[n].slen()


class _Os:
    path = _Path

    @staticmethod
    def rename(a, b):
        _rename(a, b)

    replace = rename

    @staticmethod
    def remove(a):
        if a not in CUR.files:
            raise OSError(2, 'No such file or directory', a)
        del CUR.files[a]
        CUR.prim('remove %s' % a)

    unlink = remove


def repo_atomic_replace():
    """pysyncobj.atomic_replace.atomicReplace as it is in the tree under test: the OS primitive itself is one atomic step on
    the symbolic disk; anything else is the repository's own code and runs with its `os` on the symbolic disk, so that each of
    its primitives is a crash point"""
    import os as real_os
    import pysyncobj.atomic_replace as ar
    fn = ar.atomicReplace
    if fn is real_os.rename or fn is getattr(real_os, 'replace', None):
        return _Os.rename

    def call(a, b):
        saved = ar.os
        ar.os = _Os
        try:
            return fn(a, b)
        finally:
            ar.os = saved
    return call


class _Shutil:
    @staticmethod
    def move(a, b):
        _rename(a, b)


_REAL = {}


def install_journal(concrete):
    """shadow the module namespace of pysyncobj.journal with the symbolic disk; returns the FS"""
    global CUR
    if not _REAL:
        for k in ('mmap', 'struct', 'os', 'shutil', 'to_bytes', 'loads', 'dumps'):
            _REAL[k] = getattr(J, k)
    CUR = FS(concrete)
    CUR.base = {}
    J.mmap, J.open, J.struct, J.len, J.int = _MmapMod, FakeFile, FakeStruct, symlen, symint
    J.os, J.shutil = _Os, _Shutil
    J.to_bytes = lambda d: d
    J.loads, J.dumps = fake_loads, fake_dumps
    return CUR


def uninstall_journal():
    for k, v in _REAL.items():
        setattr(J, k, v)
    for k in ('open', 'len', 'int'):
        if k in J.__dict__:
            del J.__dict__[k]


def payload(fs, tag, size):
    """command bytes of the given (symbolic) size"""
    if fs.concrete:
        n = int(size)
        return Blob.lit(bytes((i * 37 + tag * 11 + 1) % 251 for i in range(n)))
    return Blob.fresh(('cmd', tag), size)
