"""pvf.cmds -- replicated commands whose arguments are solver variables.

In symbolic mode a command is a `Cmd` (bytes-like: type byte + opaque payload) and
`pysyncobj.syncobj.pickle` is shadowed by `FakePickle`, whose `loads` returns the payload
object (arguments stay proxies).  In replay mode commands are real pickled bytes and the
real pickle module is used.
"""
import pysyncobj.syncobj as so_mod
import pysyncobj.pickle as real_pickle
from pysyncobj.syncobj import _bchr, _COMMAND_TYPE


class Payload:
    def __init__(self, obj):
        self.obj = obj


class Cmd:
    """type byte + payload; supports exactly the operations the repo applies to a command"""

    def __init__(self, ctype, obj, size=16):
        self.ctype, self.obj, self.size = ctype, obj, size

    def __getitem__(self, s):
        if isinstance(s, slice) and s.step is None:
            if s.start in (None, 0) and s.stop == 1:
                return _bchr(self.ctype)
            if s.start == 1 and s.stop is None:
                return Payload(self.obj)
        raise TypeError('unsupported slice of Cmd: %r' % (s,))

    def __len__(self):
        return self.size

    def __eq__(self, o):
        return isinstance(o, Cmd) and o.ctype == self.ctype and o.obj is self.obj

    def __ne__(self, o):
        return not self.__eq__(o)

    __hash__ = None

    def __repr__(self):
        return 'Cmd(%d, %r)' % (self.ctype, self.obj)


class FakePickle:
    @staticmethod
    def loads(x):
        if isinstance(x, Payload):
            return x.obj
        return real_pickle.loads(x)

    @staticmethod
    def dumps(obj, protocol=None):
        try:
            return real_pickle.dumps(obj)
        except Exception:
            return Payload(obj)

    to_bytes = staticmethod(real_pickle.to_bytes)
    dump = staticmethod(real_pickle.dump)
    load = staticmethod(real_pickle.load)


def install(inp):
    so_mod.pickle = real_pickle if inp.concrete else FakePickle


def regular(inp, func_id, args=None, kwargs=None):
    if kwargs:
        obj = (func_id, tuple(args or ()), kwargs)
    elif args:
        obj = (func_id, tuple(args))
    else:
        obj = func_id
    if inp.concrete:
        return _bchr(_COMMAND_TYPE.REGULAR) + real_pickle.dumps(obj)
    return Cmd(_COMMAND_TYPE.REGULAR, obj)


def version(inp, ver):
    if inp.concrete:
        return _bchr(_COMMAND_TYPE.VERSION) + real_pickle.dumps(ver)
    return Cmd(_COMMAND_TYPE.VERSION, ver)
