"""Relational obligations on two or three real SyncObj objects in one process:
PG  (C05)  one replication round leader -> follower -> leader makes progress from any related pair of logs,
RL2 (C04)  acknowledgement soundness through the real sender / receiver / acknowledgement handler with stale messages in flight,
EL  (C03)  three real nodes, any grants of one term in flight: never two leaders of one term."""
from pvf.core import And, Or, Not, Implies, Iff, Eq, Ite, Count
from pvf.registry import obligation, Res
from pvf import so, core
from pvf.so import F, C, L, get, put, guard, show, Node

P = so.P
_STUBS = ('transport=RecTransport on every object; messages are carried between the objects by the harness in FIFO order',
          'monotonicTime=Clock shared by the objects', 'random.random=fresh Real per call')
T_HI = 3


def _pair(inp, batch):
    now = inp.real('now', 0)
    clock = so.Clock(now)
    lead, ltr = so.make('a', ['b'], clock, inp, appendEntriesBatchSizeBytes=batch)
    fol, ftr = so.make('b', ['a'], clock, inp, appendEntriesBatchSizeBytes=batch)
    return lead, ltr, fol, ftr, now


def _related_logs(inp, nl, nf):
    """leader log 1..nl, follower log 1..nf, related by Log Matching: they agree exactly on the indices <= g"""
    t = inp.int('t', 1, T_HI)
    lt = [0] + [inp.int('lt%d' % i, 0, T_HI) for i in range(1, nl)]
    ft = [0] + [inp.int('ft%d' % i, 0, T_HI) for i in range(1, nf)]
    for i in range(1, nl):
        inp.assume(lt[i] >= lt[i - 1])
    for i in range(1, nf):
        inp.assume(ft[i] >= ft[i - 1])
    inp.assume(lt[-1] <= t)
    g = inp.int('agree', 1, min(nl, nf))
    for i in range(min(nl, nf)):
        inp.assume(Iff(Eq(lt[i], ft[i]), (i + 1) <= g))
    return t, lt, ft, g


@obligation('PG', props=('C05',), quick=[dict(nl=3, nf=3, batch=b) for b in (2, 100)] + [dict(nl=4, nf=2, batch=2), dict(nl=4, nf=4, batch=2), dict(nl=3, nf=4, batch=2)],
            thorough=[dict(nl=nl, nf=nf, batch=b) for nl in (2, 3, 4, 5) for nf in (1, 2, 3, 4, 5) for b in (2, 100)], stubs=_STUBS,
            bounds='leader log <=5, follower log <=5 entries (index 1 common), related by Log Matching with any agreement length, any nextIndex, follower term <= leader term, 2 entries or all entries per message (a single 1-byte entry per message would take the chunked path, which is the subject of A3); stable connection, no other event')
def PG(inp, nl, nf, batch):
    """catch-up: one round (real __sendAppendEntries -> follower handles every message in order -> leader handles every reply
    in order) either leaves the follower fully matched (same log, matchIndex = leader's last index) or strictly decreases
    nextIndex - so a connected follower is caught up within a bounded number of rounds whatever happened before."""
    lead, ltr, fol, ftr, now = _pair(inp, batch)
    t, lt, ft, g = _related_logs(inp, nl, nf)
    a, b = Node('a'), Node('b')
    so.set_log(lead, [(so.NOOP, 1 + i, lt[i]) for i in range(nl)])
    so.set_log(fol, [(so.NOOP, 1 + i, ft[i]) for i in range(nf)])
    ftm = inp.int('fterm', 0, T_HI)
    inp.assume(And(ftm <= t, ft[-1] <= ftm))
    put(lead, 'raftCurrentTerm', t); put(lead, 'raftState', L); put(lead, 'raftLeader', a)
    put(fol, 'raftCurrentTerm', ftm); put(fol, 'raftElectionDeadline', now + 100)
    get(lead, 'connectedNodes').add(b)
    nxt = inp.int('next', 2, nl + 1)          # nextIndex 1 = first index of the log: snapshot path (S4)
    mt = inp.int('match', 0, nl)
    inp.assume(And(mt <= g, mt < nxt))            # acknowledgement soundness (RL2) as hypothesis
    get(lead, 'raftNextIndex')[b] = nxt
    get(lead, 'raftMatchIndex')[b] = mt
    get(lead, 'lastResponseTime')[b] = now
    _, exc = guard(getattr(lead, P + 'sendAppendEntries'))
    msgs = [m for nd, m in ltr.sent if nd == b]
    if exc is None:
        for m in msgs:
            _, exc = guard(getattr(fol, P + 'onMessageReceived'), a, m)
            if exc is not None:
                break
    replies = [m for nd, m in ftr.sent if nd == a]
    if exc is None:
        for m in replies:
            _, exc = guard(getattr(lead, P + 'onMessageReceived'), b, m)
            if exc is not None:
                break
    nxt1, mt1 = get(lead, 'raftNextIndex')[b], get(lead, 'raftMatchIndex')[b]
    flog, llog = so.log_of(fol), so.log_of(lead)
    caught = And(Eq(mt1, nl), len(flog) >= nl and so.logs_equal(llog, flog[:nl]))
    cl = {'no_exception': exc is None}
    cl['one_reply_per_message'] = len(replies) == len(msgs)
    cl['caught_up_or_next_index_decreased'] = Or(caught, nxt1 < nxt)
    cl['match_index_sound'] = And(mt1 <= nl, And([Implies(e[1] <= mt1, so.has_entry(flog, e[1], e[2])) for e in llog]))
    cl['leader_log_untouched'] = len(llog) == nl
    cl['follower_term_adopted'] = Eq(get(fol, 'raftCurrentTerm'), t)
    return Res(cl, nontrivial=True, obs=lambda: dict(nl=nl, nf=nf, batch=batch, msgs=[(show(m['prevLogIdx']), len(m['entries'])) for m in msgs],
                                                     replies=[(show(m['next_node_idx']), m['success'], m['reset']) for m in replies],
                                                     next=(show(nxt), show(nxt1)), match=(show(mt), show(mt1)), flog=show(flog), exc=show(exc)),
               vars=dict(nmsgs=len(msgs)))


@obligation('RL2', props=('C04', 'C01'), quick=[dict(nl=3), dict(nl=4)], thorough=[dict(nl=3), dict(nl=4), dict(nl=5)], stubs=_STUBS,
            bounds='N=2; leader log <=5 entries; follower fully matched and acknowledged; one stale batch sequence produced by the real sender from any earlier nextIndex still in flight; any FIFO prefix of it delivered; then acknowledgements delivered and a leader tick')
def RL2(inp, nl):
    """acknowledgement soundness with stale messages: a follower that matched and acknowledged the whole log, then receives any
    FIFO prefix of an older re-send produced by the real sender, still holds every entry the leader counts for it - the leader's
    commit index never exceeds what the follower stores (commit-time majority for N=2) and matchIndex <= agreement."""
    lead, ltr, fol, ftr, now = _pair(inp, (2, 100)[inp.choice('batch', 2)])
    t = inp.int('t', 1, T_HI)
    lt = [0] + [inp.int('lt%d' % i, 0, T_HI) for i in range(1, nl)]
    for i in range(1, nl):
        inp.assume(lt[i] >= lt[i - 1])
    inp.assume(Eq(lt[-1], t))
    a, b = Node('a'), Node('b')
    ci = inp.int('commit', 1, nl - 1)
    for o in (lead, fol):
        so.set_log(o, [(so.NOOP, 1 + i, lt[i]) for i in range(nl)])
        put(o, 'raftCurrentTerm', t); put(o, 'raftCommitIndex', ci); put(o, 'raftLastApplied', ci)
    put(lead, 'raftState', L); put(lead, 'raftLeader', a); get(lead, 'connectedNodes').add(b)
    put(fol, 'raftLeader', a); put(fol, 'raftElectionDeadline', now + 100)
    stale = inp.int('stale_next', 2, nl)
    get(lead, 'raftNextIndex')[b] = stale
    get(lead, 'raftMatchIndex')[b] = nl
    get(lead, 'lastResponseTime')[b] = now
    _, exc = guard(getattr(lead, P + 'sendAppendEntries'))
    inflight = [m for nd, m in ltr.sent if nd == b]
    k = inp.choice('delivered', 4)
    if exc is None:
        for m in inflight[:k]:
            _, exc = guard(getattr(fol, P + 'onMessageReceived'), a, m)
            if exc is not None:
                break
    if exc is None:
        for m in [m for nd, m in ftr.sent if nd == a]:
            _, exc = guard(getattr(lead, P + 'onMessageReceived'), b, m)
    put(lead, 'newAppendEntriesTime', now + 10)
    if exc is None:
        _, exc = guard(lead._onTick, 0.0)
    flog = so.log_of(fol)
    c1 = lead.raftCommitIndex
    cl = {'no_exception': exc is None}
    cl['committed_entries_stored_by_the_follower'] = And([Implies(e[1] <= c1, so.has_entry(flog, e[1], e[2])) for e in so.log_of(lead)])
    cl['match_index_within_follower_log'] = And([Implies(e[1] <= get(lead, 'raftMatchIndex')[b], so.has_entry(flog, e[1], e[2])) for e in so.log_of(lead)])
    cl['follower_commit_within_its_log'] = fol.raftCommitIndex <= flog[-1][1]
    return Res(cl, nontrivial=c1 > ci, obs=lambda: dict(nl=nl, delivered=k, inflight=len(inflight), commit=show(c1), flast=show(flog[-1][1]), exc=show(exc)))


@obligation('EL', props=('C03',), quick=[dict(N=3, k=2)], thorough=[dict(N=3, k=3), dict(N=4, k=3)], stubs=_STUBS,
            bounds='N=3..4 real nodes of one common term in arbitrary roles consistent with the ghost relation "grants of this term"; <=3 deliveries of in-flight grants')
def EL(inp, N, k):
    """one leader per term, relationally: N real nodes of a common term whose self-votes, recorded votes and in-flight
    response_vote messages are consistent with every voter having granted at most once; after any <=k deliveries never two
    nodes are leader in that term."""
    ids = 'abcd'[:N]
    now = inp.real('now', 0)
    clock = so.Clock(now)
    objs, trs = {}, {}
    t = inp.int('t', 1, T_HI)
    for x in ids:
        o, tr = so.make(x, [y for y in ids if y != x], clock, inp)
        objs[x], trs[x] = o, tr
    # ghost: whom each node voted for in term t (None = nobody yet)
    voted = {}
    for x in ids:
        v = inp.choice('voted_' + x, N + 1)
        voted[x] = None if v == 0 else ids[v - 1]
    roles = {}
    for x in ids:
        r = inp.choice('role_' + x, 3)
        roles[x] = r
        if r in (C, L):
            inp.assume(voted[x] == x)
    grants = {x: [y for y in ids if y != x and voted[y] == x] for x in ids}      # who granted to x
    inflight = {}
    for x in ids:
        o = objs[x]
        put(o, 'raftCurrentTerm', t); put(o, 'raftState', roles[x]); put(o, 'votedForNodeId', voted[x])
        put(o, 'raftElectionDeadline', now + 100)
        for y in ids:
            if y != x:
                get(o, 'connectedNodes').add(Node(y))
        if roles[x] == C:
            # some of the grants have been counted already, the others are still in flight
            counted = [y for y in grants[x] if inp.flag('counted_%s_%s' % (y, x))]
            put(o, 'votesCount', 1 + len(counted))
            inp.assume(2 * (1 + len(counted)) <= N)          # otherwise it would already be leader
            inflight[x] = [y for y in grants[x] if y not in counted]
        elif roles[x] == L:
            put(o, 'raftLeader', Node(x))
            inp.assume(2 * (1 + len(grants[x])) > N)         # a leader of term t holds a majority of its grants
            for y in ids:
                if y != x:
                    get(o, 'raftNextIndex')[Node(y)] = 2; get(o, 'raftMatchIndex')[Node(y)] = 0; get(o, 'lastResponseTime')[Node(y)] = now
            inflight[x] = []
        else:
            inflight[x] = []
    exc = None
    order = []
    for step in range(k):
        pending = [(x, y) for x in ids for y in inflight[x]]
        if not pending:
            break
        x, y = pending[inp.choice('pick%d' % step, len(pending))]
        inflight[x].remove(y)
        order.append((y, x))
        _, exc = guard(getattr(objs[x], P + 'onMessageReceived'), Node(y), {'type': 'response_vote', 'term': t})
        if exc is not None:
            break
    leaders = [x for x in ids if objs[x]._isLeader() and bool(Eq(objs[x].raftCurrentTerm, t))]
    cl = {'no_exception': exc is None}
    cl['at_most_one_leader_in_the_term'] = len(leaders) <= 1
    return Res(cl, nontrivial=len(leaders) == 1 and len(order) > 0, obs=lambda: dict(N=N, roles=roles, voted=voted, delivered=order, leaders=leaders, exc=show(exc)))
