"""Relational obligations on two or three real SyncObj objects in one process:
PG  (C05)  one replication round leader -> follower -> leader makes progress from any related pair of logs,
RL2 (C04)  acknowledgement soundness through the real sender / receiver / acknowledgement handler with stale messages in flight,
EL  (C03)  three real nodes, any grants of one term in flight: never two leaders of one term."""
from pvf.core import And, Or, Not, Implies, Iff, Eq, Ite, Count
from pvf.registry import obligation, Res
from pvf import so, core
from pvf.so import F, C, L, get, put, guard, show, Node

P = so.P
_STUBS = ('transport=RecTransport on every object; messages are carried between the objects by the harness in FIFO order',
          'monotonicTime=Clock shared by the objects', 'random.random=fresh Real per call')
T_HI = 3


def _pair(inp, batch):
    now = inp.real('now', 0)
    clock = so.Clock(now)
    lead, ltr = so.make('a', ['b'], clock, inp, appendEntriesBatchSizeBytes=batch)
    fol, ftr = so.make('b', ['a'], clock, inp, appendEntriesBatchSizeBytes=batch)
    return lead, ltr, fol, ftr, now


def _related_logs(inp, nl, nf):
    """leader log 1..nl, follower log 1..nf, related by Log Matching: they agree exactly on the indices <= g"""
    t = inp.int('t', 1, T_HI)
    lt = [0] + [inp.int('lt%d' % i, 0, T_HI) for i in range(1, nl)]
    ft = [0] + [inp.int('ft%d' % i, 0, T_HI) for i in range(1, nf)]
    for i in range(1, nl):
        inp.assume(lt[i] >= lt[i - 1])
    for i in range(1, nf):
        inp.assume(ft[i] >= ft[i - 1])
    inp.assume(lt[-1] <= t)
    g = inp.int('agree', 1, min(nl, nf))
    for i in range(min(nl, nf)):
        inp.assume(Iff(Eq(lt[i], ft[i]), (i + 1) <= g))
    return t, lt, ft, g


@obligation('PG', props=('C05',), quick=[dict(nl=3, nf=3, batch=b) for b in (2, 100)] + [dict(nl=4, nf=2, batch=2), dict(nl=4, nf=4, batch=2), dict(nl=3, nf=4, batch=2), dict(nl=5, nf=5, batch=2), dict(nl=5, nf=4, batch=2)],
            thorough=[dict(nl=nl, nf=nf, batch=b) for nl in (2, 3, 4, 5, 6, 7, 8) for nf in (1, 2, 3, 4, 5, 6, 7, 8) for b in (2, 3, 100)], stubs=_STUBS,
            bounds='leader log <=5 (thorough 8), follower log <=5 (thorough 8) entries (index 1 common), related by Log Matching with any agreement length, any nextIndex, follower term <= leader term, 2 entries or all entries per message (a single 1-byte entry per message would take the chunked path, which is the subject of A3); stable connection, no other event')
def PG(inp, nl, nf, batch):
    """catch-up: one round (real __sendAppendEntries -> follower handles every message in order -> leader handles every reply
    in order) either leaves the follower fully matched (same log, matchIndex = leader's last index) or strictly decreases
    nextIndex - so a connected follower is caught up within a bounded number of rounds whatever happened before."""
    lead, ltr, fol, ftr, now = _pair(inp, batch)
    t, lt, ft, g = _related_logs(inp, nl, nf)
    a, b = Node('a'), Node('b')
    so.set_log(lead, [(so.NOOP, 1 + i, lt[i]) for i in range(nl)])
    so.set_log(fol, [(so.NOOP, 1 + i, ft[i]) for i in range(nf)])
    ftm = inp.int('fterm', 0, T_HI)
    inp.assume(And(ftm <= t, ft[-1] <= ftm))
    put(lead, 'raftCurrentTerm', t); put(lead, 'raftState', L); put(lead, 'raftLeader', a)
    put(fol, 'raftCurrentTerm', ftm); put(fol, 'raftElectionDeadline', now + 100)
    get(lead, 'connectedNodes').add(b)
    nxt = inp.int('next', 2, nl + 1)          # nextIndex 1 = first index of the log: snapshot path (S4)
    mt = inp.int('match', 0, nl)
    inp.assume(And(mt <= g, mt < nxt))            # acknowledgement soundness (RL2) as hypothesis
    get(lead, 'raftNextIndex')[b] = nxt
    get(lead, 'raftMatchIndex')[b] = mt
    get(lead, 'lastResponseTime')[b] = now
    _, exc = guard(getattr(lead, P + 'sendAppendEntries'))
    msgs = [m for nd, m in ltr.sent if nd == b]
    if exc is None:
        for m in msgs:
            _, exc = guard(getattr(fol, P + 'onMessageReceived'), a, m)
            if exc is not None:
                break
    replies = [m for nd, m in ftr.sent if nd == a]
    if exc is None:
        for m in replies:
            _, exc = guard(getattr(lead, P + 'onMessageReceived'), b, m)
            if exc is not None:
                break
    nxt1, mt1 = get(lead, 'raftNextIndex')[b], get(lead, 'raftMatchIndex')[b]
    flog, llog = so.log_of(fol), so.log_of(lead)
    caught = And(Eq(mt1, nl), len(flog) >= nl and so.logs_equal(llog, flog[:nl]))
    cl = {'no_exception': exc is None}
    cl['one_reply_per_message'] = len(replies) == len(msgs)
    cl['caught_up_or_next_index_decreased'] = Or(caught, nxt1 < nxt)
    cl['match_index_sound'] = And(mt1 <= nl, And([Implies(e[1] <= mt1, so.has_entry(flog, e[1], e[2])) for e in llog]))
    cl['leader_log_untouched'] = len(llog) == nl
    cl['follower_term_adopted'] = Eq(get(fol, 'raftCurrentTerm'), t)
    return Res(cl, nontrivial=True, obs=lambda: dict(nl=nl, nf=nf, batch=batch, msgs=[(show(m['prevLogIdx']), len(m['entries'])) for m in msgs],
                                                     replies=[(show(m['next_node_idx']), m['success'], m['reset']) for m in replies],
                                                     next=(show(nxt), show(nxt1)), match=(show(mt), show(mt1)), flog=show(flog), exc=show(exc)),
               vars=dict(nmsgs=len(msgs)))


@obligation('RL2', props=('C04', 'C01'), quick=[dict(nl=3), dict(nl=4)], thorough=[dict(nl=3), dict(nl=4), dict(nl=5), dict(nl=6)], stubs=_STUBS,
            bounds='N=2; leader log <=5 entries; follower fully matched and acknowledged; one stale batch sequence produced by the real sender from any earlier nextIndex still in flight; any FIFO prefix of it delivered; then acknowledgements delivered and a leader tick')
def RL2(inp, nl):
    """acknowledgement soundness with stale messages: a follower that matched and acknowledged the whole log, then receives any
    FIFO prefix of an older re-send produced by the real sender, still holds every entry the leader counts for it - the leader's
    commit index never exceeds what the follower stores (commit-time majority for N=2) and matchIndex <= agreement."""
    lead, ltr, fol, ftr, now = _pair(inp, (2, 100)[inp.choice('batch', 2)])
    t = inp.int('t', 1, T_HI)
    lt = [0] + [inp.int('lt%d' % i, 0, T_HI) for i in range(1, nl)]
    for i in range(1, nl):
        inp.assume(lt[i] >= lt[i - 1])
    inp.assume(Eq(lt[-1], t))
    a, b = Node('a'), Node('b')
    ci = inp.int('commit', 1, nl - 1)
    for o in (lead, fol):
        so.set_log(o, [(so.NOOP, 1 + i, lt[i]) for i in range(nl)])
        put(o, 'raftCurrentTerm', t); put(o, 'raftCommitIndex', ci); put(o, 'raftLastApplied', ci)
    put(lead, 'raftState', L); put(lead, 'raftLeader', a); get(lead, 'connectedNodes').add(b)
    put(fol, 'raftLeader', a); put(fol, 'raftElectionDeadline', now + 100)
    stale = inp.int('stale_next', 2, nl)
    get(lead, 'raftNextIndex')[b] = stale
    get(lead, 'raftMatchIndex')[b] = nl
    get(lead, 'lastResponseTime')[b] = now
    _, exc = guard(getattr(lead, P + 'sendAppendEntries'))
    inflight = [m for nd, m in ltr.sent if nd == b]
    k = inp.choice('delivered', 4)
    if exc is None:
        for m in inflight[:k]:
            _, exc = guard(getattr(fol, P + 'onMessageReceived'), a, m)
            if exc is not None:
                break
    if exc is None:
        for m in [m for nd, m in ftr.sent if nd == a]:
            _, exc = guard(getattr(lead, P + 'onMessageReceived'), b, m)
    put(lead, 'newAppendEntriesTime', now + 10)
    if exc is None:
        _, exc = guard(lead._onTick, 0.0)
    flog = so.log_of(fol)
    c1 = lead.raftCommitIndex
    cl = {'no_exception': exc is None}
    cl['committed_entries_stored_by_the_follower'] = And([Implies(e[1] <= c1, so.has_entry(flog, e[1], e[2])) for e in so.log_of(lead)])
    cl['match_index_within_follower_log'] = And([Implies(e[1] <= get(lead, 'raftMatchIndex')[b], so.has_entry(flog, e[1], e[2])) for e in so.log_of(lead)])
    cl['follower_commit_within_its_log'] = fol.raftCommitIndex <= flog[-1][1]
    return Res(cl, nontrivial=c1 > ci, obs=lambda: dict(nl=nl, delivered=k, inflight=len(inflight), commit=show(c1), flast=show(flog[-1][1]), exc=show(exc)))


@obligation('RL3', props=('C04', 'C02', 'C01'), quick=[dict(n=3), dict(n=4)], thorough=[dict(n=3), dict(n=4), dict(n=5)], stubs=_STUBS,
            bounds='three real nodes (a, b and a third member c as the interim leader), logs of n<=5 entries, terms 1..3; the acknowledgement is produced by the real receiver for a batch of a\'s '
                   'earlier leadership term and delivered after b\'s tail was overwritten by an interim leader and a was re-elected in a later term')
def RL3(inp, n):
    """delayed acknowledgement across terms: b stores a batch of leader a (term t0) and acknowledges it; the acknowledgement is
    delayed; an interim leader c (term t1 > t0) overwrites those entries on b and on a; a is elected again (term t2 > t1) and
    appends entries of its own at the same indices; now the old acknowledgement arrives.  Whatever a then counts for b, b holds:
    matchIndex stays sound and nothing is committed that the follower does not store (commit-time majority for N=2+1)."""
    now = inp.real('now', 0)
    clock = so.Clock(now)
    lead, ltr = so.make('a', ['b', 'c'], clock, inp)
    fol, ftr = so.make('b', ['a', 'c'], clock, inp)
    a, b, c = Node('a'), Node('b'), Node('c')
    t0 = 1
    t1 = inp.int('t1', 2, 3)
    t2 = inp.int('t2', 3, 4)
    inp.assume(t2 > t1)
    k = inp.int('common', 1, n - 1)        # indices 1..k are common (term 0) and stay
    common = [(so.NOOP, 1 + i, 0) for i in range(n)]
    # 1. a, leader of term t0, sends the entries k+1..n (term t0) to b; b stores and acknowledges them
    old = [(so.NOOP, 1 + i, 0 if 1 + i <= k else t0) for i in range(n)]
    so.set_log(lead, old)
    put(lead, 'raftCurrentTerm', t0); put(lead, 'raftState', L); put(lead, 'raftLeader', a)
    get(lead, 'connectedNodes').add(b)
    get(lead, 'raftNextIndex')[b] = 2; get(lead, 'raftMatchIndex')[b] = 0; get(lead, 'lastResponseTime')[b] = now
    get(lead, 'raftNextIndex')[c] = 2; get(lead, 'raftMatchIndex')[c] = 0; get(lead, 'lastResponseTime')[c] = now
    so.set_log(fol, [(so.NOOP, 1, 0)])
    put(fol, 'raftElectionDeadline', now + 100)
    _, exc = guard(getattr(lead, P + 'sendAppendEntries'))
    for nd, m in list(ltr.sent):
        if nd == b and exc is None:
            _, exc = guard(getattr(fol, P + 'onMessageReceived'), a, m)
    delayed = [m for nd, m in ftr.sent if nd == a]          # on their way to a, slowly
    del ftr.sent[:]
    # 2. interim leader c (term t1) overwrites the tail on b (real receiver) - and on a, which steps down
    inter = [(so.NOOP, 1 + i, 0) for i in range(k)] + [(so.NOOP, k + 1, t1)]
    msg = {'type': 'append_entries', 'term': t1, 'commit_index': inp.int('c_commit', 1, k + 1), 'entries': [inter[k]], 'prevLogIdx': k, 'prevLogTerm': 0}
    if exc is None:
        _, exc = guard(getattr(fol, P + 'onMessageReceived'), c, dict(msg))
    if exc is None:
        _, exc = guard(getattr(lead, P + 'onMessageReceived'), c, dict(msg))
    del ftr.sent[:]
    del ltr.sent[:]
    # 3. a wins term t2 (votes of c and of itself), appends its no-op at k+2 and more entries; nothing of that reaches b
    if exc is None:
        put(lead, 'raftCurrentTerm', t2); put(lead, 'raftState', C); put(lead, 'votesCount', 2)
        _, exc = guard(getattr(lead, P + 'onBecomeLeader'))
    extra = inp.choice('extra', 3)
    for i in range(extra):
        log = get(lead, 'raftLog')
        log.add(so.NOOP, log[-1][1] + 1, t2)
    del ltr.sent[:]
    # 4. the old acknowledgements arrive; a's tick may commit
    if exc is None:
        for m in delayed:
            _, exc = guard(getattr(lead, P + 'onMessageReceived'), b, m)
            if exc is not None:
                break
    put(lead, 'newAppendEntriesTime', now + 10)
    c0 = lead.raftCommitIndex
    if exc is None:
        _, exc = guard(lead._onTick, 0.0)
    flog, llog = so.log_of(fol), so.log_of(lead)
    c1 = lead.raftCommitIndex
    mt1 = get(lead, 'raftMatchIndex')[b]
    cl = {'no_exception': exc is None}
    cl['match_index_within_follower_log'] = And([Implies(e[1] <= mt1, so.has_entry(flog, e[1], e[2])) for e in llog])
    # c's matchIndex is 0 here: an entry of term t2 can only be committed on the strength of b
    cl['committed_own_term_entries_stored_by_the_follower'] = And([Implies(And(e[1] <= c1, e[1] > c0), so.has_entry(flog, e[1], e[2])) for e in llog])
    return Res(cl, nontrivial=len(delayed) > 0, obs=lambda: dict(n=n, common=show(k), delayed=[(show(m['next_node_idx']), m['success'], show(m.get('term'))) for m in delayed],
                                                                 match=show(mt1), commit=(show(c0), show(c1)), llog=show(llog), flog=show(flog), exc=show(exc)))


@obligation('EL', props=('C03',), quick=[dict(N=3, k=2)], thorough=[dict(N=3, k=3), dict(N=4, k=3), dict(N=5, k=3)], stubs=_STUBS,
            bounds='N=3..5 real nodes of one common term in arbitrary roles consistent with the ghost relation "grants of this term"; <=3 deliveries of in-flight grants')
def EL(inp, N, k):
    """one leader per term, relationally: N real nodes of a common term whose self-votes, recorded votes and in-flight
    response_vote messages are consistent with every voter having granted at most once; after any <=k deliveries never two
    nodes are leader in that term."""
    ids = 'abcde'[:N]
    now = inp.real('now', 0)
    clock = so.Clock(now)
    objs, trs = {}, {}
    t = inp.int('t', 1, T_HI)
    for x in ids:
        o, tr = so.make(x, [y for y in ids if y != x], clock, inp)
        objs[x], trs[x] = o, tr
    # ghost: whom each node voted for in term t (None = nobody yet)
    voted = {}
    for x in ids:
        v = inp.choice('voted_' + x, N + 1)
        voted[x] = None if v == 0 else ids[v - 1]
    roles = {}
    for x in ids:
        r = inp.choice('role_' + x, 3)
        roles[x] = r
        if r in (C, L):
            inp.assume(voted[x] == x)
    grants = {x: [y for y in ids if y != x and voted[y] == x] for x in ids}      # who granted to x
    inflight = {}
    for x in ids:
        o = objs[x]
        put(o, 'raftCurrentTerm', t); put(o, 'raftState', roles[x]); put(o, 'votedForNodeId', voted[x])
        put(o, 'raftElectionDeadline', now + 100)
        for y in ids:
            if y != x:
                get(o, 'connectedNodes').add(Node(y))
        if roles[x] == C:
            # some of the grants have been counted already, the others are still in flight
            counted = [y for y in grants[x] if inp.flag('counted_%s_%s' % (y, x))]
            put(o, 'votesCount', 1 + len(counted))
            inp.assume(2 * (1 + len(counted)) <= N)          # otherwise it would already be leader
            inflight[x] = [y for y in grants[x] if y not in counted]
        elif roles[x] == L:
            put(o, 'raftLeader', Node(x))
            inp.assume(2 * (1 + len(grants[x])) > N)         # a leader of term t holds a majority of its grants
            for y in ids:
                if y != x:
                    get(o, 'raftNextIndex')[Node(y)] = 2; get(o, 'raftMatchIndex')[Node(y)] = 0; get(o, 'lastResponseTime')[Node(y)] = now
            inflight[x] = []
        else:
            inflight[x] = []
    exc = None
    order = []
    for step in range(k):
        pending = [(x, y) for x in ids for y in inflight[x]]
        if not pending:
            break
        x, y = pending[inp.choice('pick%d' % step, len(pending))]
        inflight[x].remove(y)
        order.append((y, x))
        _, exc = guard(getattr(objs[x], P + 'onMessageReceived'), Node(y), {'type': 'response_vote', 'term': t})
        if exc is not None:
            break
    leaders = [x for x in ids if objs[x]._isLeader() and bool(Eq(objs[x].raftCurrentTerm, t))]
    cl = {'no_exception': exc is None}
    cl['at_most_one_leader_in_the_term'] = len(leaders) <= 1
    return Res(cl, nontrivial=len(leaders) == 1 and len(order) > 0, obs=lambda: dict(N=N, roles=roles, voted=voted, delivered=order, leaders=leaders, exc=show(exc)))


@obligation('CM', props=('C04', 'C01'), quick=[dict(nl=3), dict(nl=4)], thorough=[dict(nl=3), dict(nl=4), dict(nl=5), dict(nl=6)], stubs=_STUBS,
            bounds='three real nodes: leader log <=5 entries, two followers with logs of the same length bound related to the leader log by Log Matching with any agreement lengths; matchIndex of each follower any value not above its agreement length (RL2); one leader tick')
def CM(inp, nl):
    """commit-time majority (the property's own sentence): at the very step the leader's commit index advances to c, the
    entry (c, term) is stored in the logs a strict majority of the three voters hold at that step."""
    now = inp.real('now', 0)
    clock = so.Clock(now)
    lead, ltr = so.make('a', ['b', 'c'], clock, inp)
    t = inp.int('t', 1, T_HI)
    lt = [0] + [inp.int('lt%d' % i, 0, T_HI) for i in range(1, nl)]
    for i in range(1, nl):
        inp.assume(lt[i] >= lt[i - 1])
    inp.assume(lt[-1] <= t)
    llog = [(so.NOOP, 1 + i, lt[i]) for i in range(nl)]
    so.set_log(lead, llog)
    ci = inp.int('commit', 1, nl)
    put(lead, 'raftCurrentTerm', t); put(lead, 'raftState', L); put(lead, 'raftLeader', Node('a'))
    put(lead, 'raftCommitIndex', ci); put(lead, 'raftLastApplied', ci); put(lead, 'newAppendEntriesTime', now + 10)
    flogs = {}
    for x in ('b', 'c'):
        nf = inp.choice('len_' + x, nl) + 1
        ft = [0] + [inp.int('%st%d' % (x, i), 0, T_HI) for i in range(1, nf)]
        for i in range(1, nf):
            inp.assume(ft[i] >= ft[i - 1])
        g = inp.int('agree_' + x, 1, nl)
        inp.assume(g <= nf)
        for i in range(min(nl, nf)):
            inp.assume(Iff(Eq(lt[i], ft[i]), (i + 1) <= g))
        flogs[x] = [(so.NOOP, 1 + i, ft[i]) for i in range(nf)]
        m = inp.int('match_' + x, 0, nl)
        inp.assume(m <= g)                        # RL2: what the leader counts for a follower, the follower holds
        nd = Node(x)
        get(lead, 'raftMatchIndex')[nd] = m
        get(lead, 'raftNextIndex')[nd] = m + 1
        get(lead, 'lastResponseTime')[nd] = now
        get(lead, 'connectedNodes').add(nd)
    _, exc = guard(lead._onTick, 0.0)
    c1 = lead.raftCommitIndex
    holders = 1 + Count([so.has_entry(flogs[x], c1, so.term_at(llog, c1)) for x in ('b', 'c')])
    cl = {'no_exception': exc is None}
    cl['committed_entry_held_by_a_majority_at_that_step'] = Implies(c1 > ci, 2 * holders > 3)
    cl['committed_entry_is_of_the_current_term'] = Implies(c1 > ci, Eq(so.term_at(llog, c1), t))
    cl['commit_monotone'] = c1 >= ci
    return Res(cl, nontrivial=c1 > ci, obs=lambda: dict(nl=nl, commit=(show(ci), show(c1)), flens={x: len(v) for x, v in flogs.items()}, exc=show(exc)))


from pvf import cmds as _cmds                                  # noqa: E402
from pvf.obligations.apply import Acc as _Acc, Rec as _Rec      # noqa: E402
from pysyncobj.config import FAIL_REASON as _FR                # noqa: E402


@obligation('CB5', props=('C02', 'C01'), quick=[dict()], stubs=_STUBS + ('pysyncobj.syncobj.pickle=FakePickle',),
            bounds='follower b submits add(x) (x symbolic) through leader a (term symbolic); a third node c becomes leader of the next term at any of 5 points of the pipeline submit -> forward -> append -> reply -> replicate -> commit -> apply; c either overwrites the position with its own command or has adopted the command (case split)')
def CB5(inp):
    """callback contract along the whole forwarding pipeline with a leader change inserted anywhere: the submitter's callback fires
    at most once at every point and exactly once in the end; SUCCESS only if the command is the one applied at its position on the
    submitter (with that execution's result); if another command took the position the callback never reports SUCCESS."""
    now = inp.real('now', 0)
    clock = so.Clock(now)
    fol, ftr = so.make('b', ['a', 'c'], clock, inp, cls=_Acc)
    lead, ltr = so.make('a', ['b', 'c'], clock, inp, cls=_Acc)
    _cmds.install(inp)
    a, b, c = Node('a'), Node('b'), Node('c')
    t = inp.int('t', 1, 3)
    x = inp.int('x', 1, 5)
    for o in (fol, lead):
        so.set_log(o, [(so.NOOP, 1, 0), (so.NOOP, 2, t)])
        put(o, 'raftCurrentTerm', t); put(o, 'raftCommitIndex', 2); put(o, 'raftLastApplied', 2); put(o, 'raftElectionDeadline', now + 100)
    put(lead, 'raftState', L); put(lead, 'raftLeader', a); put(lead, 'newAppendEntriesTime', now + 100)
    for nd in (b, c):
        get(lead, 'raftNextIndex')[nd] = 3; get(lead, 'raftMatchIndex')[nd] = 2; get(lead, 'lastResponseTime')[nd] = now
    get(lead, 'connectedNodes').add(b)
    put(fol, 'raftLeader', a); get(fol, 'connectedNodes').add(a); get(fol, 'connectedNodes').add(c)
    rec = _Rec('cb')
    cmd = _cmds.regular(inp, fol._methodToID['add_v0'], (x,))
    other = _cmds.regular(inp, fol._methodToID['add_v0'], (x + 10,))
    k = inp.choice('change_at', 6) + 1             # after step 0..4, or 6 = no leader change at all (a change before the submission is just a submission to another leader)
    adopt = inp.flag('new_leader_has_the_command')
    via_vote = inp.flag('candidate_first')          # c first asks b for its vote (b's term advances, pending replies are not cancelled), its append_entries comes after the pipeline
    recvF, recvL = getattr(fol, P + 'onMessageReceived'), getattr(lead, P + 'onMessageReceived')
    state = dict(changed=False, exc=None, max_calls=0)

    def guard_(f, *args):
        if state['exc'] is None:
            _, state['exc'] = guard(f, *args)
        state['max_calls'] = max(state['max_calls'], len(rec.calls))

    def leader_change():
        """c, leader of term t+1, reaches b: either it holds a's entry at index 3 (then its own no-op at 4) or its own command at 3"""
        state['changed'] = True
        if via_vote and not state.get('voted'):
            state['voted'] = True
            guard_(recvF, c, {'type': 'request_vote', 'term': t + 1, 'last_log_index': 9, 'last_log_term': t})
            state['final_commit'] = None
            return
        flog = so.log_of(fol)
        has3 = len(flog) >= 3
        if adopt and has3:
            ents = [(so.NOOP, 4, t + 1)]
            guard_(recvF, c, {'type': 'append_entries', 'term': t + 1, 'commit_index': 2, 'prevLogIdx': 3, 'prevLogTerm': t, 'entries': ents})
            state['final_commit'] = 4
        else:
            ents = [(other, 3, t + 1)]
            guard_(recvF, c, {'type': 'append_entries', 'term': t + 1, 'commit_index': 2, 'prevLogIdx': 2, 'prevLogTerm': t, 'entries': ents})
            state['final_commit'] = 3

    def flush(src_tr, pos, dst_recv, sender):
        msgs = src_tr.sent[pos[0]:]
        pos[0] = len(src_tr.sent)
        for nd, m in msgs:
            if (dst_recv is recvL and nd == a) or (dst_recv is recvF and nd == b):
                guard_(dst_recv, sender, m)

    fpos, lpos = [0], [0]
    steps = [
        lambda: (guard_(fol._applyCommand, cmd, rec), guard_(fol._checkCommandsToApply)),                       # submit + forward
        lambda: (flush(ftr, fpos, recvL, b), guard_(lead._checkCommandsToApply)),                               # leader appends, replies
        lambda: flush(ltr, lpos, recvF, a),                                                                     # reply reaches the submitter
        lambda: (guard_(getattr(lead, P + 'sendAppendEntries')), flush(ltr, lpos, recvF, a)),                  # replicate
        lambda: (flush(ftr, fpos, recvL, b), guard_(lead._onTick, 0.0)),                                        # ack, leader commits
        lambda: (guard_(getattr(lead, P + 'sendAppendEntries')), flush(ltr, lpos, recvF, a), guard_(fol._onTick, 0.0)),   # commit reaches b, b applies
    ]
    for i, st in enumerate(steps):
        if i == k:
            leader_change()
        st()
    if state['changed'] and state.get('final_commit') is None:
        put(lead, 'raftState', F)                       # a has lost the election meanwhile
        leader_change()
    if state['changed']:
        fc = state['final_commit']
        flog = so.log_of(fol)
        guard_(recvF, c, {'type': 'append_entries', 'term': t + 1, 'commit_index': fc, 'prevLogIdx': flog[-1][1], 'prevLogTerm': flog[-1][2], 'entries': []})
        guard_(fol._onTick, 0.0)
    flog = so.log_of(fol)
    at3 = flog[2][0] if len(flog) >= 3 else None
    mine_applied = at3 is not None and at3 == cmd and bool(fol.raftLastApplied >= 3)
    cl = {'no_exception': state['exc'] is None}
    cl['never_more_than_one_call'] = state['max_calls'] <= 1 and len(rec.calls) <= 1
    cl['exactly_one_call_in_the_end'] = len(rec.calls) == 1
    if len(rec.calls) == 1:
        res, err = rec.calls[0]
        cl['success_only_if_applied_at_its_position'] = Implies(Eq(err, _FR.SUCCESS), mine_applied)
        cl['success_carries_own_result'] = Implies(Eq(err, _FR.SUCCESS), Eq(res, x) if res is not None else False)
        cl['overwritten_command_never_reports_success'] = Implies(not mine_applied, Not(Eq(err, _FR.SUCCESS)))
        cl['no_leader_change_means_success'] = Implies(not state['changed'], Eq(err, _FR.SUCCESS))
        # once the reply (index, term) has reached the submitter, a command applied at that position with that term is a SUCCESS
        cl['applied_after_reply_means_success'] = Implies(k >= 3 and mine_applied and not via_vote, Eq(err, _FR.SUCCESS))
    cl['submitter_state_is_fold_of_its_log'] = Eq(fol.total, Sum_applied(fol, flog, cmd, other, x))
    return Res(cl, nontrivial=state['changed'], obs=lambda: dict(change_at=k, adopt=adopt, calls=show(rec.calls), applied=show(fol.raftLastApplied),
                                                                 log=[(show(e[1]), show(e[2])) for e in flog], total=show(fol.total), exc=show(state['exc'])))


def Sum_applied(fol, flog, cmd, other, x):
    tot = 0
    for e in flog:
        if bool(e[1] <= fol.raftLastApplied):
            if e[0] == cmd:
                tot = tot + x
            elif e[0] == other:
                tot = tot + x + 10
    return tot


@obligation('EV', props=('C03', 'C07'), quick=[dict(N=5), dict(N=4)], thorough=[dict(N=5), dict(N=4), dict(N=3)], stubs=_STUBS,
            bounds='one candidate of an N-node cluster and one real voter; request, grant, then any of: connection flap, repeated request, election-timer tick that is not due; all resulting messages delivered both ways')
def EV(inp, N):
    """a grant is counted once: after a voter has granted its vote to a candidate, no connection flap, repeated delivery of the
    request or idle tick makes the candidate count that voter a second time in the same term."""
    ids = 'abcde'[:N]
    now = inp.real('now', 0)
    clock = so.Clock(now)
    cand, ctr = so.make('a', [x for x in ids if x != 'a'], clock, inp)
    vot, vtr = so.make('b', [x for x in ids if x != 'b'], clock, inp)
    a, b = Node('a'), Node('b')
    t = inp.int('t', 1, 3)
    put(cand, 'raftCurrentTerm', t); put(cand, 'raftState', C); put(cand, 'votedForNodeId', 'a'); put(cand, 'votesCount', 1)
    put(cand, 'raftElectionDeadline', now + 100); get(cand, 'connectedNodes').add(b)
    put(vot, 'raftCurrentTerm', inp.int('vt', 0, 3)); put(vot, 'raftElectionDeadline', now + 100); get(vot, 'connectedNodes').add(a)
    inp.assume(get(vot, 'raftCurrentTerm') < t)
    recvC, recvV = getattr(cand, P + 'onMessageReceived'), getattr(vot, P + 'onMessageReceived')
    req = {'type': 'request_vote', 'term': t, 'last_log_index': 1, 'last_log_term': 0}
    exc = [None]

    def g(f, *args):
        if exc[0] is None:
            _, exc[0] = guard(f, *args)
    cpos, vpos = [0], [0]

    def pump():
        for _ in range(3):
            for nd, m in ctr.sent[cpos[0]:]:
                if nd == b:
                    g(recvV, a, m)
            cpos[0] = len(ctr.sent)
            for nd, m in vtr.sent[vpos[0]:]:
                if nd == a:
                    g(recvC, b, m)
            vpos[0] = len(vtr.sent)
    g(recvV, a, req)
    pump()
    after_first = get(cand, 'votesCount')
    ev = inp.choice('event', 4)
    if ev == 0:
        g(getattr(cand, P + 'onNodeDisconnected'), b); g(getattr(cand, P + 'onNodeConnected'), b)
        g(getattr(vot, P + 'onNodeDisconnected'), a); g(getattr(vot, P + 'onNodeConnected'), a)
    elif ev == 1:
        g(recvV, a, dict(req))                 # the request arrives a second time (retransmission)
    elif ev == 2:
        g(cand._onTick, 0.0); g(vot._onTick, 0.0)
    pump()
    cl = {'no_exception': exc[0] is None}
    cl['first_grant_counted'] = Eq(after_first, 2)
    cl['voter_counted_once'] = get(cand, 'votesCount') <= 2
    cl['no_leader_from_one_voter'] = Implies(N >= 4, Not(cand._isLeader()))
    return Res(cl, nontrivial=True, obs=lambda: dict(N=N, event=ev, votes=show(get(cand, 'votesCount')), leader=cand._isLeader(), exc=show(exc[0])))
