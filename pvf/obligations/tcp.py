"""C13: the real TcpConnection send / receive / parse code on symbolic byte streams."""
import socket as realsocket
import z3

from pvf.core import And, Or, Not, Implies, Iff, Eq, Ite, SymInt
from pvf.registry import obligation, Res
from pvf import core
from pvf.blob import Blob, S, symlen
from pvf.so import guard, show
import pysyncobj.tcp_connection as tc
from pysyncobj.poller import POLL_EVENT_TYPE
from pysyncobj.tcp_connection import CONNECTION_STATE

_STUBS = ('socket=SymSocket (send accepts a symbolic 0..len bytes or raises EAGAIN; recv returns the next <=n bytes cut at a symbolic position or raises EAGAIN)',
          'poller=FakePoller (records subscriptions)', 'zlib/pickle = injective codecs on blobs with a symbolic encoded length (decode of anything else raises)',
          'struct.pack/unpack(i) = inverse pair; unpack of bytes that are not a whole length field returns an unconstrained 32-bit int',
          'monotonicTime = fixed (timeouts are C14)')
LMAX = 100000
LQUICK = 20000


class FakePoller:
    def __init__(self):
        self.subs = {}

    def subscribe(self, d, cb, ev):
        self.subs[d] = ev

    def unsubscribe(self, d):
        self.subs.pop(d, None)


class Codec:
    """per-path registry behind the struct / zlib / pickle stubs"""

    def __init__(self, inp):
        self.inp, self.lens, self.pays, self.n, self.garbage = inp, {}, {}, 0, 0
        self.lengths = {}       # message id -> encoded length

    # pickle
    def dumps(self, obj, protocol=None):
        return ('pickled', obj)

    def loads(self, x):
        if isinstance(x, tuple) and x and x[0] == 'pickled':
            return x[1]
        if isinstance(x, tuple) and x and x[0] == 'poison':
            raise x[1]('crafted pickle')          # a well-formed compressed stream whose unpickling fails in some way
        raise ValueError('not a pickle')

    # zlib
    def compress(self, tok, level=3):
        mid = tok[1]
        L = self.lengths[mid]
        self.pays[('pay', mid)] = (L, tok)
        return Blob.fresh(('pay', mid), L)

    def decompress(self, blob):
        blob = Blob.coerce(blob)
        so = blob.sole_origin()
        if so is not None and so[0] in self.pays and bool(so[1] == 0) and bool(so[2] == self.pays[so[0]][0]):
            return self.pays[so[0]][1]
        raise tc.zlib.error('bad stream') if hasattr(tc.zlib, 'error') else ValueError('bad stream')

    # struct
    def pack(self, fmt, v):
        self.n += 1
        o = ('len', self.n)
        self.lens[o] = v
        return Blob.fresh(o, 4)

    def unpack(self, fmt, blob):
        blob = Blob.coerce(blob)
        so = blob.sole_origin()
        if so is not None and so[0] in self.lens and bool(so[1] == 0) and bool(so[2] == 4):
            return (self.lens[so[0]],)
        self.garbage += 1
        return (self.inp.int('garbage%d' % self.garbage, -2 ** 31, 2 ** 31 - 1),)


class _Mod:
    def __init__(self, **kw):
        self.__dict__.update(kw)


_REAL = {k: getattr(tc, k) for k in ('zlib', 'struct', 'pickle', 'monotonicTime')}


def install(inp):
    c = Codec(inp)
    tc.len = symlen
    tc.struct = _Mod(pack=c.pack, unpack=c.unpack)
    tc.zlib = _Mod(compress=c.compress, decompress=c.decompress, error=_REAL['zlib'].error)
    tc.pickle = _Mod(dumps=c.dumps, loads=c.loads)
    tc.monotonicTime = lambda: 0.0
    return c


def _eagain():
    e = realsocket.error()
    e.errno = realsocket.errno.EAGAIN
    return e


class SymSocket:
    """one end of a byte stream; `peer_wire` is where sent bytes go, `wire` is what can be received"""

    def __init__(self, inp, name):
        self.inp, self.name = inp, name
        self.wire = Blob()          # bytes in flight towards this socket
        self.peer = None
        self.send_budget = 0        # number of further send() calls with a symbolic outcome
        self.recv_budget = 0        # number of further recv() calls that may return a partial fragment
        self.k = 0
        self.closed = False
        self.sent_total = S(0)

    def fileno(self):
        return 7

    def close(self):
        self.closed = True

    def getsockopt(self, *a):
        return 0

    def connect(self, addr):
        pass

    def setblocking(self, x):
        pass

    def setsockopt(self, *a):
        pass

    def send(self, buf):
        n = symlen(buf)
        self.k += 1
        if self.k > 40:
            from pvf import blob as _b
            _b.UNWIND['hit'] = True
            core.CTX.aborted = True
            raise core.Abort()
        if self.send_budget > 0:
            self.send_budget -= 1
            if self.inp.flag('%s_eagain%d' % (self.name, self.k)):
                raise _eagain()
            a = self.inp.int('%s_acc%d' % (self.name, self.k), 0, LMAX + 8)
            self.inp.assume(a <= n)
        else:
            a = n
        self.peer.wire = self.peer.wire + Blob.coerce(buf)[:a]
        self.sent_total = self.sent_total + a
        return a

    def recv(self, n):
        rem = self.wire.slen()
        if not (rem > 0):
            raise _eagain()
        self.k += 1
        if self.recv_budget > 0:
            self.recv_budget -= 1
            f = self.inp.int('%s_frag%d' % (self.name, self.k), 1, LMAX + 8)
            self.inp.assume(And(f <= rem, f <= n))
        elif self.recv_budget == 0:
            self.recv_budget = -1
            raise _eagain()         # end of this read event
        else:
            f = rem              # drain: the remaining reads of this event, merged (the code only concatenates them)
        out = self.wire[:f]
        self.wire = self.wire[f:]
        return out


def _pair(inp, recvbuf, sendbuf=8192):
    a, b = SymSocket(inp, 'a'), SymSocket(inp, 'b')
    a.peer, b.peer = b, a
    got, disc = [], []
    pa, pb = FakePoller(), FakePoller()
    # a small configured send buffer: what is pending in user space may exceed any multiple of it (a big entry is written in one go)
    ca = tc.TcpConnection(pa, socket=a, keepalive=None, recvBufferSize=recvbuf, sendBufferSize=sendbuf)
    cb = tc.TcpConnection(pb, onMessageReceived=got.append, onDisconnected=lambda: disc.append(len(got)), socket=b, keepalive=None, recvBufferSize=recvbuf)
    return a, b, ca, cb, got, disc


@obligation('T1', props=('C13', 'C11'), quick=[dict(k=1, sends=2, reads=2), dict(k=2, sends=1, reads=2), dict(k=2, sends=2, reads=1), dict(k=3, sends=1, reads=1), dict(k=1, sends=1, reads=1, sendbuf=1)],
            thorough=[dict(k=2, sends=1, reads=1, sendbuf=1), dict(k=1, sends=3, reads=3, lmax=LMAX), dict(k=2, sends=2, reads=2, lmax=LMAX), dict(k=3, sends=2, reads=1), dict(k=3, sends=1, reads=2), dict(k=4, sends=1, reads=1)],
            stubs=_STUBS,
            bounds='k<=4 messages with encoded length 1..20000 (quick) / 1..100000 (thorough) each (below, equal to and above the symbolic receive buffer size 1..65536); <=3 send() calls with symbolic short-write/EAGAIN outcome, <=3 read events of <=2 symbolic fragments, then drain')
def T1(inp, k, sends, reads, lmax=LQUICK, sendbuf=8192):
    """round trip through two real TcpConnection objects: whatever the partial-send and fragmentation pattern, the receiver's
    callback sequence is a prefix of the sent sequence (same order, each once, equal messages) and, once everything is flushed
    and read, equals it; no exception, no disconnect; leftover bytes are a proper prefix of the next frame."""
    codec = install(inp)
    R = inp.int('recvbuf', 1, 65536)
    a, b, ca, cb, got, disc = _pair(inp, R, sendbuf)
    msgs = []
    for i in range(k):
        codec.lengths[i] = inp.int('L%d' % i, 1, lmax)
        msgs.append(i)
    # steady state of an established connection: the first writable event found nothing to send and dropped the write interest
    guard(getattr(ca, '_TcpConnection__processConnection'), 7, POLL_EVENT_TYPE.WRITE)
    a.send_budget = sends
    exc = None
    for i in range(k):
        _, exc = guard(ca.send, i)
        if exc is not None:
            break
    # bytes that did not fit into the socket stay in the write buffer: the connection must then be waiting for the socket to become
    # writable, otherwise they only move when the application happens to send something else
    pending = ca.getSendBufferSize() > 0 if exc is None else False
    subs0 = dict(getattr(ca, '_TcpConnection__poller').subs)
    waits_for_writable = 7 in subs0 and (subs0[7] & POLL_EVENT_TYPE.WRITE) != 0
    delivered_mid = None
    if exc is None:
        # a few read events with symbolic fragmentation while the sender may still hold bytes
        for ev in range(reads):
            b.recv_budget = 2
            _, exc = guard(getattr(cb, '_TcpConnection__processConnection'), 7, POLL_EVENT_TYPE.READ)
            if exc is not None:
                break
        delivered_mid = list(got)
    if exc is None:
        # flush the sender (writable events until its buffer is empty), then drain the receiver
        a.send_budget = 0
        _, exc = guard(getattr(ca, '_TcpConnection__processConnection'), 7, POLL_EVENT_TYPE.WRITE)
    if exc is None:
        b.recv_budget = -1
        _, exc = guard(getattr(cb, '_TcpConnection__processConnection'), 7, POLL_EVENT_TYPE.READ)
    cl = {'no_exception': exc is None}
    cl['no_disconnect'] = len(disc) == 0 and cb.state == CONNECTION_STATE.CONNECTED and ca.state == CONNECTION_STATE.CONNECTED
    cl['write_interest_while_bytes_pending'] = Implies(pending, waits_for_writable)
    cl['prefix_in_order_once_each'] = delivered_mid is None or delivered_mid == msgs[:len(delivered_mid)]
    cl['all_delivered_after_drain'] = got == msgs
    cl['sender_buffer_empty_after_flush'] = bool(Eq(ca.getSendBufferSize(), 0)) if exc is None else True
    cl['receiver_buffer_empty_after_drain'] = bool(Eq(symlen(getattr(cb, '_TcpConnection__readBuffer')), 0)) if exc is None else True
    subs = getattr(ca, '_TcpConnection__poller').subs
    cl['write_interest_dropped_when_flushed'] = (7 in subs and (subs[7] & POLL_EVENT_TYPE.WRITE) == 0 and (subs[7] & POLL_EVENT_TYPE.READ) != 0) if exc is None else True
    return Res(cl, nontrivial=True, obs=lambda: dict(k=k, delivered_mid=delivered_mid, got=list(got), disc=len(disc), exc=show(exc),
                                                     wire_left=show(b.wire.slen())))


@obligation('T2', props=('C13',), quick=[dict(k=2, bad=0, what='len'), dict(k=2, bad=1, what='len'), dict(k=2, bad=0, what='payload'), dict(k=2, bad=1, what='payload'), dict(k=2, bad=0, what='unpickle'), dict(k=2, bad=1, what='unpickle')],
            thorough=[dict(k=3, bad=b, what=w) for b in (0, 1, 2) for w in ('len', 'payload', 'unpickle')],
            stubs=_STUBS,
            bounds='k<=3 frames, one of them corrupted: its length field replaced by any 32-bit value != the true length, or its payload replaced by undecodable bytes of any length 1..100000, or by a valid compressed stream whose unpickling raises one of 9 exception types; 2 read events of <=2 symbolic fragments, then drain')
def T2(inp, k, bad, what):
    """a frame with an invalid length field or an undecodable payload: no exception escapes the event handler, the frames
    before it are delivered once and in order, the corrupt frame is never delivered, and nothing is delivered twice or out of order."""
    codec = install(inp)
    R = inp.int('recvbuf', 1, 65536)
    a, b, ca, cb, got, disc = _pair(inp, R)
    wire = Blob()
    Ls = []
    fld_bad = None
    for i in range(k):
        L = inp.int('L%d' % i, 1, LMAX)
        Ls.append(L)
        codec.lengths[i] = L
        fld = L
        pay = codec.compress(('pickled', i))
        if i == bad and what == 'len':
            fld = inp.int('badlen', -2 ** 31, 2 ** 31 - 1)
            inp.assume(Not(Eq(fld, L)))
            fld_bad = fld
        if i == bad and what == 'payload':
            pay = Blob.fresh(('junk', i), L)
        if i == bad and what == 'unpickle':
            errs = (ValueError, EOFError, IndexError, AttributeError, ModuleNotFoundError, KeyError, TypeError, ImportError, OverflowError)
            codec.pays[('pay', i)] = (L, ('poison', errs[inp.choice('exc_kind', len(errs))]))      # decompresses fine, unpickling raises
            pay = Blob.fresh(('pay', i), L)
        wire = wire + codec.pack('i', fld) + pay
    b.wire = wire
    exc = None
    for ev in range(2):
        b.recv_budget = 2
        _, exc = guard(getattr(cb, '_TcpConnection__processConnection'), 7, POLL_EVENT_TYPE.READ)
        if exc is not None or cb.state == CONNECTION_STATE.DISCONNECTED:
            break
    if exc is None and cb.state != CONNECTION_STATE.DISCONNECTED:
        b.recv_budget = -1
        _, exc = guard(getattr(cb, '_TcpConnection__processConnection'), 7, POLL_EVENT_TYPE.READ)
    good = list(range(bad))
    cl = {'no_exception_escapes': exc is None}
    cl['corrupt_frame_never_delivered'] = bad not in got
    cl['frames_before_in_order_once'] = got[:len(good)] == good[:len(got)]
    cl['nothing_after_a_corrupt_frame'] = all(m < bad for m in got)
    cl['disconnect_reported_at_most_once'] = len(disc) <= 1
    # disc records how many messages had been delivered when onDisconnected fired (S-C13-9: frames decoded first, delivered after the disconnect report)
    cl['nothing_delivered_after_disconnect_reported'] = all(d == len(got) for d in disc)
    # invalid frame fully received => the connection is closed
    # once every byte has been handed to the receiver: a frame whose (wrong) length is negative, or whose claimed
    # body is fully available, or whose payload does not decode, must have closed the connection; a length that
    # points beyond the available bytes only makes the receiver wait (no claim)
    avail = sum((4 + Ls[j] for j in range(bad + 1, k)), Ls[bad])
    if what == 'len':
        recognisable = Or(fld_bad < 0, fld_bad <= avail)
    else:
        recognisable = True
    cl['invalid_frame_disconnects'] = Implies(And(Eq(b.wire.slen(), 0), recognisable), cb.state == CONNECTION_STATE.DISCONNECTED)
    if cb.state == CONNECTION_STATE.DISCONNECTED:
        cl['buffers_cleared_on_disconnect'] = bool(Eq(symlen(getattr(cb, '_TcpConnection__readBuffer')), 0)) and len(disc) == 1
    return Res(cl, nontrivial=len(got) >= bad, obs=lambda: dict(k=k, bad=bad, what=what, got=list(got), disc=len(disc), state=cb.state, exc=show(exc)),
               vars=dict(what=what, bad=bad, badlen=fld_bad if fld_bad is not None else 0))


@obligation('T2h', props=('C13', 'C14'), quick=[dict(k=2, rej=0), dict(k=3, rej=1)], stubs=_STUBS,
            bounds='k<=3 valid frames of symbolic length 1..100000 in one stream, 2 read events of <=2 symbolic fragments, then drain; the message handler closes the connection while it handles frame rej (what a rejected hello does)')
def T2h(inp, k, rej):
    """the handler disconnects while handling a message: the frames that were received behind it (same read round or later)
    are never handed to the application, the disconnect is reported once, no exception escapes."""
    codec = install(inp)
    R = inp.int('recvbuf', 1, 65536)
    a, b, ca, cb, got, disc = _pair(inp, R)

    def handler(m):
        got.append(m)
        if m == rej:
            cb.disconnect()
    cb.setOnMessageReceivedCallback(handler)
    wire = Blob()
    for i in range(k):
        L = inp.int('L%d' % i, 1, LMAX)
        codec.lengths[i] = L
        wire = wire + codec.pack('i', L) + codec.compress(('pickled', i))
    b.wire = wire
    exc = None
    for ev in range(2):
        b.recv_budget = 2
        _, exc = guard(getattr(cb, '_TcpConnection__processConnection'), 7, POLL_EVENT_TYPE.READ)
        if exc is not None or cb.state == CONNECTION_STATE.DISCONNECTED:
            break
    if exc is None and cb.state != CONNECTION_STATE.DISCONNECTED:
        b.recv_budget = -1
        _, exc = guard(getattr(cb, '_TcpConnection__processConnection'), 7, POLL_EVENT_TYPE.READ)
    cl = {'no_exception_escapes': exc is None}
    cl['in_order_once'] = got == list(range(len(got)))
    cl['nothing_delivered_behind_the_rejected_frame'] = all(m <= rej for m in got)
    cl['disconnect_reported_once_when_rejected'] = len(disc) == (1 if rej in got else 0)
    cl['everything_read_means_rejected'] = Implies(Eq(b.wire.slen(), 0), cb.state == CONNECTION_STATE.DISCONNECTED)
    return Res(cl, nontrivial=rej in got, obs=lambda: dict(k=k, rej=rej, got=list(got), disc=list(disc), state=cb.state, exc=show(exc)))


@obligation('T3', props=('C13', 'C14'), quick=[dict()], stubs=_STUBS, bounds='one connection with symbolic amounts of unsent and unparsed bytes')
def T3(inp):
    """disconnect(): both buffers are emptied, the descriptor is unsubscribed, the callback fires exactly once, a second
    disconnect is silent and later events on the old descriptor deliver nothing."""
    codec = install(inp)
    a, b, ca, cb, got, disc = _pair(inp, 4096)
    codec.lengths[0] = inp.int('L0', 1, LMAX)
    a.send_budget = 1
    guard(ca.send, 0)
    b.recv_budget = 1
    guard(getattr(cb, '_TcpConnection__processConnection'), 7, POLL_EVENT_TYPE.READ)
    n_before = len(got)
    _, exc = guard(cb.disconnect)
    _, exc2 = guard(cb.disconnect)
    _, exc3 = guard(getattr(cb, '_TcpConnection__processConnection'), 7, POLL_EVENT_TYPE.READ)
    cl = {'no_exception': exc is None and exc2 is None and exc3 is None}
    cl['callback_once'] = len(disc) == 1
    cl['buffers_empty'] = bool(Eq(symlen(getattr(cb, '_TcpConnection__readBuffer')), 0)) and bool(Eq(cb.getSendBufferSize(), 0))
    cl['unsubscribed'] = 7 not in getattr(cb, '_TcpConnection__poller').subs
    cl['nothing_delivered_afterwards'] = len(got) == n_before
    cl['state_disconnected'] = cb.state == CONNECTION_STATE.DISCONNECTED
    return Res(cl, nontrivial=True, obs=lambda: dict(got=list(got), disc=len(disc)))


class _SockMod:
    """stands for the socket module inside pysyncobj.tcp_connection: socket() hands out SymSockets"""

    def __init__(self, inp):
        self.inp, self.made = inp, []

    def socket(self, *a):
        s = SymSocket(self.inp, 's%d' % len(self.made))
        s.peer = SymSocket(self.inp, 'p%d' % len(self.made))
        self.made.append(s)
        return s

    def __getattr__(self, name):
        return getattr(realsocket, name)


@obligation('T4', props=('C13', 'C14'), quick=[dict(k=1), dict(k=2)], thorough=[dict(k=1), dict(k=2), dict(k=3)], stubs=_STUBS + ('socket.socket() = SymSocket factory',),
            bounds='a dialling connection object that loses its connection after a symbolic number of bytes of a frame (0..whole header+body-1), is re-dialled, and then receives k<=3 valid frames in <=2 symbolic fragments + drain')
def T4(inp, k):
    """connection reuse: after a connection died in the middle of a frame, the same object re-dialled delivers the new
    stream completely and in order - no state of the dead connection (partial frame, parsed header, unsent bytes) leaks."""
    codec = install(inp)
    sm = _SockMod(inp)
    tc.socket = sm
    try:
        got, disc, conns = [], [], []
        conn = tc.TcpConnection(FakePoller(), onMessageReceived=got.append, onDisconnected=lambda: disc.append(1),
                                onConnected=lambda: conns.append(1), recvBufferSize=inp.int('recvbuf', 1, 65536))
        pc = getattr(conn, '_TcpConnection__processConnection')
        exc = None
        ok = conn.connect('127.0.0.1', 1)
        _, exc = guard(pc, 7, POLL_EVENT_TYPE.WRITE)
        s1 = sm.made[0]
        # first life: frame 100 arrives only partially, some bytes of an own message stay unsent
        codec.lengths[100] = inp.int('Lold', 1, LQUICK)
        frame = codec.pack('i', codec.lengths[100]) + codec.compress(('pickled', 100))
        cut = inp.int('cut', 0, LQUICK + 4)
        inp.assume(cut < 4 + codec.lengths[100])
        s1.wire = frame[:cut]
        s1.recv_budget = -1
        if exc is None:
            _, exc = guard(pc, 7, POLL_EVENT_TYPE.READ)
        codec.lengths[200] = inp.int('Lown', 1, LQUICK)
        s1.send_budget = 1
        if exc is None:
            _, exc = guard(conn.send, 200)
        how = inp.choice('how', 2)
        if exc is None:
            _, exc = guard(conn.disconnect) if how == 0 else guard(pc, 7, POLL_EVENT_TYPE.ERROR)
        n_old = len(got)
        # second life
        if exc is None:
            _, exc = guard(conn.connect, '127.0.0.1', 1)
        if exc is None:
            _, exc = guard(pc, 7, POLL_EVENT_TYPE.WRITE)
        s2 = sm.made[-1]
        wire = Blob()
        for i in range(k):
            codec.lengths[i] = inp.int('L%d' % i, 1, LQUICK)
            wire = wire + codec.pack('i', codec.lengths[i]) + codec.compress(('pickled', i))
        s2.wire = wire
        s2.recv_budget = 2
        if exc is None:
            _, exc = guard(pc, 7, POLL_EVENT_TYPE.READ)
        s2.recv_budget = -1
        if exc is None:
            _, exc = guard(pc, 7, POLL_EVENT_TYPE.READ)
    finally:
        tc.socket = realsocket
    cl = {'no_exception': exc is None}
    cl['old_partial_frame_never_delivered'] = 100 not in got
    cl['new_stream_delivered_in_order'] = got[n_old:] == list(range(k))
    cl['connected_twice_disconnected_once'] = len(conns) == 2 and len(disc) == 1
    cl['still_connected'] = conn.state == CONNECTION_STATE.CONNECTED
    cl['old_unsent_bytes_not_resent'] = len(sm.made) == 2 and bool(Eq(sm.made[-1].peer.wire.slen(), 0))
    return Res(cl, nontrivial=cut >= 4, obs=lambda: dict(k=k, got=list(got), disc=len(disc), conns=len(conns), state=conn.state, exc=show(exc)))


@obligation('T5', props=('C13', 'C14'), quick=[dict()], stubs=_STUBS + ('socket failure injected at a chosen call: send() -> -1 / EPIPE / ECONNRESET, recv() -> ECONNRESET / EOF (empty), SO_ERROR != 0',),
            bounds='one established connection with one buffered outgoing frame and one incoming frame; the failure strikes the first send or the first recv (case split)')
def T5(inp):
    """socket failures: a failing send or recv (error return, hard socket error, end of stream, pending SO_ERROR) closes the
    connection - buffers emptied, descriptor unsubscribed, the disconnect callback fired exactly once, no exception out of the event
    handler, nothing delivered afterwards; EAGAIN is not a failure."""
    codec = install(inp)
    a, b, ca, cb, got, disc = _pair(inp, 4096)
    kind = ('send_neg', 'send_epipe', 'send_reset', 'send_eagain', 'recv_reset', 'recv_eof', 'so_error')[inp.choice('kind', 7)]
    codec.lengths[0] = inp.int('L0', 1, 5000)
    codec.lengths[1] = inp.int('L1', 1, 5000)
    import errno as _e

    def hard(code):
        e = realsocket.error()
        e.errno = code
        return e
    victim = cb
    s = b
    if kind.startswith('send'):
        def bad_send(buf):
            if kind == 'send_neg':
                return -1
            raise hard({'send_epipe': _e.EPIPE, 'send_reset': _e.ECONNRESET, 'send_eagain': _e.EAGAIN}[kind])
        s.send = bad_send
        _, exc = guard(cb.send, 1)
    else:
        a.send_budget = 0
        guard(ca.send, 0)                       # a frame is on the wire towards the victim
        if kind == 'recv_reset':
            s.recv = lambda n: (_ for _ in ()).throw(hard(_e.ECONNRESET))
        elif kind == 'recv_eof':
            s.recv = lambda n: Blob()
        else:
            s.getsockopt = lambda *a_: 111
        _, exc = guard(getattr(cb, '_TcpConnection__processConnection'), 7, POLL_EVENT_TYPE.READ)
    n_got = len(got)
    _, exc2 = guard(getattr(cb, '_TcpConnection__processConnection'), 7, POLL_EVENT_TYPE.READ)
    fatal = kind != 'send_eagain'
    cl = {'no_exception': exc is None and exc2 is None}
    cl['closed_iff_failure'] = (cb.state == CONNECTION_STATE.DISCONNECTED) == fatal
    cl['disconnect_callback_once_iff_failure'] = len(disc) == (1 if fatal else 0)
    if fatal:
        cl['buffers_emptied'] = bool(Eq(symlen(getattr(cb, '_TcpConnection__readBuffer')), 0)) and bool(Eq(cb.getSendBufferSize(), 0))
        cl['unsubscribed'] = 7 not in getattr(cb, '_TcpConnection__poller').subs
        cl['nothing_delivered_after_the_failure'] = len(got) == n_got
    else:
        cl['eagain_keeps_the_frame_buffered'] = bool(cb.getSendBufferSize() > 0)
    return Res(cl, nontrivial=fatal, obs=lambda: dict(kind=kind, state=cb.state, disc=len(disc), got=list(got), exc=show(exc)))
