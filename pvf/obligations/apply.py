"""Apply loop and callback-contract obligations: R8 (apply), X1 (raising methods), CB1 (dispatch),
CBQ (queue full), CB3 (forwarded replies, leader change), CB4 (sync wrapper)."""
from pvf.core import And, Or, Not, Implies, Iff, Eq, Ite, Sum, Count
from pvf.registry import obligation, Res
from pvf import so, cmds, core
from pvf.so import F, C, L, get, put, guard, show, Node
from pvf.obligations.election import IDS, T_HI, _STUBS
from pysyncobj.syncobj import SyncObj, SyncObjException, replicated, replicated_sync
from pysyncobj.config import FAIL_REASON

P = so.P
_STUBS2 = _STUBS + ('pysyncobj.syncobj.pickle=FakePickle (loads returns the payload object; arguments stay symbolic)',)


class Acc(SyncObj):
    """user object: `add` accumulates, `boom` raises iff its argument exceeds 2 (deterministic on every replica)"""

    def __init__(self, *a, **kw):
        super(Acc, self).__init__(*a, **kw)
        self.total = 0
        self.seq = []

    @replicated
    def add(self, x):
        self.total = self.total + x
        self.seq.append(('add', x))
        return self.total

    @replicated
    def boom(self, x):
        if x > 2:
            raise ValueError('boom')
        self.seq.append(('boom', x))
        return x


class Rec:
    """callback recorder"""

    def __init__(self, name):
        self.name, self.calls = name, []

    def __call__(self, res, err):
        self.calls.append((res, err))


def _mk_acc(inp, N=3, ro=False, **confkw):
    now = inp.real('now', 0)
    clock = so.Clock(now)
    o, tr = so.make(None if ro else 'a', IDS[1:N] if not ro else IDS[:N], clock, inp, cls=Acc, **confkw)
    cmds.install(inp)
    return o, tr, now


def _entries(inp, o, n, kinds):
    """n commands; kind per entry is a case split over `kinds`"""
    out, meta = [], []
    for i in range(n):
        k = kinds[inp.choice('kind%d' % i, len(kinds))]
        x = inp.int('x%d' % i, -3, 5)
        if k == 'noop':
            out.append(so.NOOP)
        else:
            out.append(cmds.regular(inp, o._methodToID[k + '_v0'], (x,)))
        meta.append((k, x))
    return out, meta


def _running_results(p, meta, lo=None, hi=None):
    """value each entry's execution returns, given that exactly the non-raising entries with lo < idx <= hi ran before it"""
    total, out = 0, []
    for i, e in enumerate(p.log):
        k, x = meta[i]
        inr = True if lo is None else And(e[1] > lo, e[1] <= hi)
        if k == 'add':
            total = Ite(inr, total + x, total)
        out.append(total if k == 'add' else (x if k == 'boom' else None))
    return out, total


def _cb_clauses(cl, rec, applied_flag, ok_term, expected):
    calls = rec.calls
    cl['cb_%s_called_once_iff_applied' % rec.name] = Iff(applied_flag, len(calls) == 1) if len(calls) <= 1 else False
    if len(calls) == 1:
        r, err = calls[0]
        good = And(Eq(err, FAIL_REASON.SUCCESS), (r is None) if expected is None else Eq(r, expected))
        bad = And(Eq(err, FAIL_REASON.DISCARDED), r is None)
        cl['cb_%s_outcome' % rec.name] = And(Implies(ok_term, good), Implies(Not(ok_term), bad))


@obligation('R8', props=('C01', 'C02', 'C04', 'C12'),
            quick=[dict(n=2), dict(n=3)], thorough=[dict(n=2), dict(n=3), dict(n=4), dict(n=3, role=L)],
            stubs=_STUBS2,
            bounds='n<=4 entries (no-op or add(x), x in -3..5), first index 1..2, any commit/applied indices, subscribers with any recorded term on every entry')
def R8(inp, n, role=F):
    """a tick applies exactly the entries lastApplied+1..commitIndex, in order, once each; the object state
    equals the fold of the real method over them; every subscriber of an applied index is called exactly once,
    SUCCESS with that execution's result iff its recorded term equals the entry's term, else DISCARDED."""
    o, tr, now = _mk_acc(inp)
    commands, meta = _entries(inp, o, n, ('noop', 'add'))
    p = so.sym_state(inp, o, now, n, role=role, term_hi=T_HI, base_hi=2, connected=(), commands=commands)
    if role == F:
        inp.assume(p.deadline >= now)
    else:
        put(o, 'newAppendEntriesTime', now + 1)
        for x in p.others:                      # keep the leader a leader, keep the commit index where it is
            inp.assume(And(p.resp[x.id] >= now, p.match[x.id] <= p.commit))
    subs, recs = {}, []
    wc = get(o, 'commandsWaitingCommit')
    for i in range(n):
        if inp.flag('sub%d' % i):
            st = inp.int('st%d' % i, 0, T_HI)
            rec = Rec('e%d' % i)
            inp.assume(p.log[i][1] > p.applied)
            wc[p.log[i][1]].append((st, rec))
            subs[i] = [(st, rec)]
            recs.append(rec)
    _, exc = guard(o._onTick, 0.0)
    q = so.post_state(o)
    cl = {}
    results, total = _running_results(p, meta, p.applied, p.commit)
    for i, lst in subs.items():
        for st, rec in lst:
            _cb_clauses(cl, rec, And(p.log[i][1] > p.applied, p.log[i][1] <= p.commit), Eq(st, p.log[i][2]), results[i])
    cl['no_exception'] = exc is None
    cl['applied_reaches_commit'] = And(Eq(q.applied, p.commit), Eq(q.commit, p.commit))
    cl['state_is_fold'] = Eq(o.total, total)
    # order: seq must be the in-range add arguments in log order
    exp = [(And(p.log[i][1] > p.applied, p.log[i][1] <= p.commit), meta[i][1]) for i in range(n) if meta[i][0] == 'add']
    seq = o.seq
    # value-level: the j-th applied item equals the j-th in-range expected item
    cl['applied_in_log_order_once_each'] = _seq_matches(seq, exp)
    obs = lambda: dict(meta=show(meta), seq=show(seq), total=show(o.total), applied=show(q.applied), commit=show(q.commit),
                       calls={r.name: show(r.calls) for r in recs}, exc=show(exc))
    return Res(cl, nontrivial=p.commit > p.applied, obs=obs)


def _seq_prefix(seq, exp, at_least):
    """seq is a prefix of the selected sub-list of exp and has at least `at_least` items"""
    cnt = Count([f for f, _ in exp])
    conds = [cnt >= len(seq), at_least <= len(seq)]
    for i, (f, x) in enumerate(exp):
        pos = Count([g for g, _ in exp[:i]])
        for j, item in enumerate(seq):
            conds.append(Implies(And(f, Eq(pos, j)), Eq(item[1], x)))
    return And(conds)


def _seq_matches(seq, exp):
    """seq (python list of ('add', x)) == the sub-list of exp items whose flag is true, in order"""
    cnt = Count([f for f, _ in exp])
    conds = [Eq(cnt, len(seq))]
    # position of exp[i] among the selected = number of selected before it
    for i, (f, x) in enumerate(exp):
        pos = Count([g for g, _ in exp[:i]])
        for j, item in enumerate(seq):
            conds.append(Implies(And(f, Eq(pos, j)), Eq(item[1], x)))
    return And(conds)


@obligation('X1', props=('C12', 'C02'),
            quick=[dict(n=2), dict(n=3)], thorough=[dict(n=2), dict(n=3), dict(n=4)],
            stubs=_STUBS2,
            bounds='n<=4 committed entries (no-op, add(x) or boom(x); boom raises iff x>2; x in -3..5), any subset raises, subscriber on every entry')
def X1(inp, n):
    """a committed batch in which any subset of commands raises: the tick lets no exception escape, the applied
    index reaches the commit index, every subscriber is called exactly once, later entries are still applied,
    and a second tick applies nothing twice."""
    o, tr, now = _mk_acc(inp)
    commands, meta = _entries(inp, o, n, ('add', 'boom'))
    p = so.sym_state(inp, o, now, n, role=F, term_hi=T_HI, base_hi=1, connected=(), commands=commands)
    inp.assume(And(p.deadline >= now, Eq(p.applied, p.base), Eq(p.commit, p.last)))
    recs = []
    wc = get(o, 'commandsWaitingCommit')
    for i in range(1, n):
        rec = Rec('e%d' % i)
        wc[p.log[i][1]].append((p.log[i][2], rec))
        recs.append(rec)
    _, exc = guard(o._onTick, 0.0)
    _, exc2 = guard(o._onTick, 0.0)
    q = so.post_state(o)
    raises = [And(meta[i][0] == 'boom', meta[i][1] > 2) for i in range(n)]
    some_raises = Or(raises[1:] or [False])
    results, _ = _running_results(p, meta, p.applied, p.commit)
    cl = {}
    # ---- what the property demands (fails on the unchanged tree when something raises: F-RAISE) ----
    cl['no_exception_escapes_tick'] = exc is None and exc2 is None
    cl['applied_reaches_commit'] = Eq(q.applied, p.commit)
    cl['every_subscriber_called_once'] = all(len(r.calls) == 1 for r in recs)
    sel = [(Not(raises[i]), meta[i][1]) for i in range(1, n)]
    cl['non_raising_entries_applied_once_in_order'] = _seq_matches(o.seq, sel)
    # ---- what must hold in any case (also where a raise stalls the node) ----
    blocked, before = False, []
    for i in range(1, n):
        before.append(And(Not(blocked), Not(raises[i])))
        blocked = Or(blocked, raises[i])
    cl['applied_sequence_is_sound_prefix'] = _seq_prefix(o.seq, sel, Count(before))
    cl['at_most_one_call_per_subscriber'] = all(len(r.calls) <= 1 for r in recs)
    cl['calls_report_own_execution'] = And([And(Not(raises[i + 1]), Eq(r.calls[0][1], FAIL_REASON.SUCCESS), Eq(r.calls[0][0], results[i + 1]))
                                            for i, r in enumerate(recs) if len(r.calls) == 1] or [True])
    cl['applied_within_commit'] = And(q.applied <= p.commit, q.applied >= p.applied)
    obs = lambda: dict(meta=show(meta), seq=show(o.seq), applied=show(q.applied), commit=show(p.commit),
                       calls={r.name: show(r.calls) for r in recs}, exc=show(exc), exc2=show(exc2))
    return Res(cl, nontrivial=some_raises, obs=obs, vars=dict(some_raises=some_raises))


# =======================================================================================
# C02: dispatch of submissions

@obligation('CB1', props=('C02', 'C18', 'C05'),
            quick=[dict(k=1), dict(k=2), dict(k=1, ro=True)], thorough=[dict(k=1), dict(k=2), dict(k=3), dict(k=2, ro=True), dict(k=1, batch=False)],
            stubs=_STUBS2,
            bounds='k<=3 queued submissions, each local-with-callback / local-without / forwarded (node, request id); any role, leader pointer, commandsWaitLeader flag; n=2 log entries')
def CB1(inp, k, ro=False, batch=True):
    """dispatch of queued submissions: leader appends at lastIdx+1.. with its term and registers (term, cb) under
    exactly that index (forwarded: reply carries index and term); follower with a leader forwards once with a fresh
    request id; without leader: kept (wait) or MISSING_LEADER once; forwarded-to-non-leader: NOT_LEADER reply;
    nothing is ever appended by a non-leader; no callback fires twice."""
    o, tr, now = _mk_acc(inp, 3, ro, appendEntriesUseBatch=batch)
    p = so.sym_state(inp, o, now, 2, term_hi=T_HI, base_hi=2, connected=('b', 'c') if not ro else ('a', 'b', 'c'))
    wait = inp.flag('waitLeader')
    o.conf.commandsWaitLeader = wait
    if p.role == L:
        put(o, 'newAppendEntriesTime', now + 1)
        for v in p.next.values():
            inp.assume(v > p.base)            # below the first log index the leader needs a snapshot, which this state does not have
    subs = []
    for i in range(k):
        kind = ('cb', 'nocb', 'fwd')[inp.choice('sub%d' % i, 3)]
        cmd = cmds.regular(inp, o._methodToID['add_v0'], (inp.int('x%d' % i, -3, 5),))
        rec = Rec('s%d' % i)
        cb = rec if kind == 'cb' else (None if kind == 'nocb' else (p.others[0], 100 + i))
        o._applyCommand(cmd, cb)
        subs.append((kind, cmd, rec, cb))
    before_counter = get(o, 'commandsLocalCounter')
    _, exc = guard(o._checkCommandsToApply)
    q = so.post_state(o)
    wc, wr = get(o, 'commandsWaitingCommit'), get(o, 'commandsWaitingReply')
    left = []
    qq = get(o, 'commandsQueue')
    while True:
        try:
            left.append(qq.get_nowait())
        except Exception:
            break
    cl = {'no_exception': exc is None}
    cl['no_callback_twice'] = all(len(r.calls) <= 1 for _, _, r, _ in subs)
    cl['term_role_unchanged'] = And(Eq(q.term, p.term), q.role == p.role, Eq(q.commit, p.commit))
    resp = tr.of_type('apply_command_response')
    fwd = tr.of_type('apply_command')
    if p.role == L:
        cl['all_appended_in_order'] = len(q.log) == len(p.log) + k and And(
            [And(q.log[len(p.log) + i][0] == subs[i][1], Eq(q.log[len(p.log) + i][1], p.last + 1 + i), Eq(q.log[len(p.log) + i][2], p.term)) for i in range(k)])
        cl['old_log_kept'] = so.logs_equal(p.log, q.log[:len(p.log)])
        cl['queue_drained'] = len(left) == 0
        cl['no_callback_yet'] = all(len(r.calls) == 0 for _, _, r, _ in subs)
        exp_wc = {}
        for i, (kind, cmd, rec, cb) in enumerate(subs):
            if kind == 'cb':
                exp_wc[i] = rec
        regs = [(idx, t, c) for idx, lst in wc.items() for t, c in lst]
        cl['registered_under_own_index_and_term'] = len(regs) == len(exp_wc) and And(
            [Or([And(Eq(idx, p.last + 1 + i), Eq(t, p.term), c is rec) for idx, t, c in regs] or [False]) for i, rec in exp_wc.items()] or [True])
        exp_resp = [(i, cb) for i, (kind, _, _, cb) in enumerate(subs) if kind == 'fwd']
        cl['forwarded_replies'] = len(resp) == len(exp_resp) and And(
            [And(m['request_id'] == cb[1], Eq(m['log_idx'], p.last + 1 + i), Eq(m['log_term'], p.term), 'error' not in m)
             for m, (i, cb) in zip(resp, exp_resp)] or [True])
    else:
        cl['non_leader_appends_nothing'] = so.logs_equal(p.log, q.log) if len(p.log) == len(q.log) else False
        cl['nothing_registered_for_commit'] = sum(len(v) for v in wc.values()) == 0
        if p.leader is not None:
            cl['queue_drained'] = len(left) == 0
            loc = [(i, s) for i, s in enumerate(subs) if s[0] != 'fwd']
            cl['forwarded_once_each_in_order'] = len(fwd) == len(loc) and all(m['command'] == s[1] for m, (_, s) in zip(fwd, loc)) and \
                all(nd == p.leader for nd, m in tr.sent if m['type'] == 'apply_command')
            ids = [m.get('request_id') for m, (_, s) in zip(fwd, loc)]
            cl['request_ids_fresh_and_mapped'] = all((rid is not None and wr.get(rid) is s[2] and rid > before_counter) if s[0] == 'cb' else rid is None
                                                     for rid, (_, s) in zip(ids, loc)) and len(set(i for i in ids if i is not None)) == len([i for i in ids if i is not None])
            cl['not_leader_reply_to_forwarded'] = [(m['request_id'], m.get('error')) for m in resp] == [(s[3][1], FAIL_REASON.NOT_LEADER) for s in subs if s[0] == 'fwd']
            cl['no_callback_yet'] = all(len(r.calls) == 0 for _, _, r, _ in subs)
        elif wait:
            cl['kept_in_queue'] = len(left) == k and len(tr.sent) == 0 and all(len(r.calls) == 0 for _, _, r, _ in subs)
        else:
            cl['queue_drained'] = len(left) == 0
            cl['missing_leader_once_each'] = all(r.calls == [(None, FAIL_REASON.MISSING_LEADER)] for kind, _, r, _ in subs if kind == 'cb')
            cl['missing_leader_reply_to_forwarded'] = [(m['request_id'], m.get('error')) for m in resp] == [(s[3][1], FAIL_REASON.MISSING_LEADER) for s in subs if s[0] == 'fwd']
            cl['nothing_forwarded'] = len(fwd) == 0
    obs = lambda: dict(role=p.role, leader=show(p.leader), wait=wait, kinds=[s[0] for s in subs], sent=[(nd.id, show(m)) for nd, m in tr.sent],
                       post_log=show(q.log), calls={s[2].name: show(s[2].calls) for s in subs}, left=len(left), exc=show(exc))
    return Res(cl, nontrivial=True, obs=obs)


@obligation('CBQ', props=('C02',), quick=[dict(pre=0), dict(pre=1), dict(pre=2)],
            stubs=_STUBS2, bounds='0..2 commands already queued, commandsQueueSize 0..3, callback / no callback / forwarded')
def CBQ(inp, pre):
    """a submission either enters the queue (no callback yet) or is refused with QUEUE_FULL exactly once and is not enqueued."""
    o, tr, now = _mk_acc(inp)
    from pysyncobj.fast_queue import FastQueue
    size = inp.int('qsize', 0, 3)
    put(o, 'commandsQueue', FastQueue(size))
    for i in range(pre):
        o._applyCommand(cmds.regular(inp, 0, (i,)), None)
    pre = len(get(o, 'commandsQueue')._FastQueue__queue)       # what actually got in
    kind = ('cb', 'nocb', 'fwd')[inp.choice('kind', 3)]
    rec = Rec('s')
    cb = rec if kind == 'cb' else (None if kind == 'nocb' else (Node('b'), 7))
    cmd = cmds.regular(inp, 0, (99,))
    _, exc = guard(o._applyCommand, cmd, cb)
    qq = get(o, 'commandsQueue')
    items = []
    while True:
        try:
            items.append(qq.get_nowait())
        except Exception:
            break
    enq = len(items) == pre + 1
    resp = tr.of_type('apply_command_response')
    cl = {'no_exception': exc is None}
    cl['enqueued_xor_refused'] = (enq and len(rec.calls) == 0 and len(resp) == 0) or \
        (len(items) == pre and (rec.calls == [(None, FAIL_REASON.QUEUE_FULL)] if kind == 'cb' else len(rec.calls) == 0) and
         ([(m['request_id'], m.get('error')) for m in resp] == [(7, FAIL_REASON.QUEUE_FULL)] if kind == 'fwd' else len(resp) == 0))
    cl['refused_only_when_full'] = Implies(not enq, pre >= size)      # (the queue admits size+1 items; not part of the property)
    return Res(cl, nontrivial=not enq, obs=lambda: dict(kind=kind, enq=enq, calls=show(rec.calls), sent=[show(m) for _, m in tr.sent]))


@obligation('CB3', props=('C02',), quick=[dict(kind='reply'), dict(kind='leader_change_ae'), dict(kind='leader_change_election')],
            stubs=_STUBS2, bounds='2 commands waiting for a reply; reply with any request id 0..3, error code or index/term; leader change by append_entries from any node or by an election start')
def CB3(inp, kind):
    """forwarded-command bookkeeping: an error reply fires that callback once and forgets it; an index/term reply moves it to
    the waiting-commit table under that index and term; a leader change fires LEADER_CHANGED once for every waiting callback
    and empties the table; other callbacks are untouched; no callback is called twice."""
    o, tr, now = _mk_acc(inp)
    role = F if kind != 'leader_change_election' else inp.choice('role', 2)
    p = so.sym_state(inp, o, now, 2, role=role, term_hi=T_HI, base_hi=2, connected=('b', 'c'))
    recs = {1: Rec('w1'), 2: Rec('w2')}
    put(o, 'commandsWaitingReply', dict(recs))
    put(o, 'commandsLocalCounter', 2)
    cl = {}
    if kind == 'reply':
        rid = inp.int('rid', 0, 3)
        iserr = inp.flag('iserr')
        msg = {'type': 'apply_command_response', 'request_id': rid}
        if iserr:
            err = inp.int('err', 1, 6)
            msg['error'] = err
        else:
            idx, t = inp.int('idx', 1, 8), inp.int('lt', 0, T_HI)
            inp.assume(idx > p.applied)
            msg.update(log_idx=idx, log_term=t)
        _, exc = guard(getattr(o, P + 'onMessageReceived'), p.others[inp.choice('sender', 2)], msg)
        wr, wc = get(o, 'commandsWaitingReply'), get(o, 'commandsWaitingCommit')
        regs = [(i, tt, c) for i, lst in wc.items() for tt, c in lst]
        for j, rec in recs.items():
            hit = Eq(rid, j)
            if iserr:
                cl['%s_error_once' % rec.name] = Iff(hit, rec.calls == [(None, err)]) if not rec.calls else And(hit, len(rec.calls) == 1, rec.calls[0][0] is None, Eq(rec.calls[0][1], err))
            else:
                cl['%s_not_called' % rec.name] = len(rec.calls) == 0
                cl['%s_moved_to_commit_table' % rec.name] = Iff(hit, Or([And(c is rec, Eq(i, idx), Eq(tt, t)) for i, tt, c in regs] or [False]))
            cl['%s_forgotten_iff_hit' % rec.name] = Iff(hit, j not in wr)
        cl['no_spurious_registration'] = len(regs) <= 1
        nontrivial = Or(Eq(rid, 1), Eq(rid, 2))
    else:
        if kind == 'leader_change_ae':
            sender = p.others[inp.choice('sender', 2)]
            mterm = inp.int('mterm', 0, T_HI + 1)
            msg = {'type': 'append_entries', 'term': mterm, 'commit_index': 0, 'prevLogIdx': p.last, 'prevLogTerm': p.last_term, 'entries': []}
            _, exc = guard(getattr(o, P + 'onMessageReceived'), sender, msg)
            changed = And(mterm >= p.term, not (p.leader == sender))
        else:
            _, exc = guard(o._onTick, 0.0)
            changed = p.deadline < now
        wr = get(o, 'commandsWaitingReply')
        for j, rec in recs.items():
            cl['%s_leader_changed_once_iff_changed' % rec.name] = Iff(changed, rec.calls == [(None, FAIL_REASON.LEADER_CHANGED)]) if len(rec.calls) <= 1 else False
            cl['%s_forgotten_iff_changed' % rec.name] = Iff(changed, j not in wr)
        nontrivial = changed
    cl['no_exception'] = exc is None
    cl['no_callback_twice'] = all(len(r.calls) <= 1 for r in recs.values())
    return Res(cl, nontrivial=nontrivial, obs=lambda: dict(kind=kind, calls={r.name: show(r.calls) for r in recs.values()}, exc=show(exc)))


class _SyncUser(SyncObj):
    @replicated_sync
    def op(self, x):
        return x

    @replicated
    def aop(self, x):
        return x


@obligation('CB4', props=('C02', 'C19'), quick=[dict(dec='sync'), dict(dec='async_sync_kw')],
            stubs=_STUBS2 + ('_applyCommand replaced on the instance: invokes the callback with a symbolic (result, error) or never',),
            bounds='error code 0..6, result any int, callback fired before the wait or never (timeout 0)')
def CB4(inp, dec):
    """synchronous wrapper: returns the command's own result iff the error code is SUCCESS, raises SyncObjException(code)
    otherwise, raises SyncObjException('Timeout') iff the callback never fired within the timeout."""
    now = inp.real('now', 0)
    o, tr = so.make('a', ['b', 'c'], so.Clock(now), inp, cls=_SyncUser)
    cmds.install(inp)
    fires = inp.flag('fires')
    res, err = inp.int('res', -5, 5), inp.int('err', 0, 6)
    seen = []

    def fake_apply(command, callback, commandType=None):
        seen.append((command, callback, commandType))
        if fires:
            callback(res, err)
    o._applyCommand = fake_apply
    if dec == 'sync':
        out, exc = guard(o.op, 5, timeout=0.0)
    else:
        out, exc = guard(o.aop, 5, sync=True, timeout=0.0)
    cl = {}
    cl['submitted_once'] = len(seen) == 1
    if not fires:
        cl['timeout_raised'] = isinstance(exc, SyncObjException) and exc.errorCode == 'Timeout'
    else:
        ok = Eq(err, 0)
        cl['result_iff_success'] = Iff(ok, exc is None)
        cl['own_result'] = Implies(ok, False if exc is not None else Eq(out, res))
        cl['error_code_raised'] = Implies(Not(ok), isinstance(exc, SyncObjException) and Eq(getattr(exc, 'errorCode', None), err))
    return Res(cl, nontrivial=True, obs=lambda: dict(fires=fires, out=show(out), exc=show(exc), code=show(getattr(exc, 'errorCode', None))))


@obligation('CB6', props=('C02',), quick=[dict()], stubs=_STUBS2,
            bounds='a follower forwards command A to leader a, learns of a new leader c (append_entries of a higher term), forwards command B to c; then a late reply of a for A arrives (any index/term or error), then the reply of c for B')
def CB6(inp):
    """forwarded requests are matched to their own replies across leader changes: a late reply of the old leader never
    reaches the callback of a command that was forwarded later; A gets LEADER_CHANGED once, B is registered under the index and
    term of c's reply only."""
    o, tr, now = _mk_acc(inp)
    p = so.sym_state(inp, o, now, 2, role=F, term_hi=3, base_hi=1, connected=('b', 'c'))
    a_, c_ = p.others[0], p.others[1]          # 'b' plays the old leader, 'c' the new one
    put(o, 'raftLeader', a_)
    put(o, 'raftElectionDeadline', now + 100)
    recA, recB = Rec('A'), Rec('B')
    cmdA = cmds.regular(inp, o._methodToID['add_v0'], (1,))
    cmdB = cmds.regular(inp, o._methodToID['add_v0'], (2,))
    recv = getattr(o, P + 'onMessageReceived')
    steps = []
    _, exc = guard(o._applyCommand, cmdA, recA)
    if exc is None:
        _, exc = guard(o._checkCommandsToApply)
    fwdA = [m for nd, m in tr.sent if m['type'] == 'apply_command']
    if exc is None:
        _, exc = guard(recv, c_, {'type': 'append_entries', 'term': p.term + 1, 'commit_index': 0, 'prevLogIdx': p.last, 'prevLogTerm': p.last_term, 'entries': []})
    if exc is None:
        _, exc = guard(o._applyCommand, cmdB, recB)
    if exc is None:
        _, exc = guard(o._checkCommandsToApply)
    fwd = [(nd, m) for nd, m in tr.sent if m['type'] == 'apply_command']
    cl = {'no_exception_so_far': exc is None}
    cl['both_forwarded_to_their_leader'] = len(fwd) == 2 and fwd[0][0] == a_ and fwd[1][0] == c_
    if exc is None and len(fwd) == 2:
        ridA, ridB = fwd[0][1].get('request_id'), fwd[1][1].get('request_id')
        stale_idx, stale_term = inp.int('stale_idx', 1, 9), inp.int('stale_term', 0, 3)
        inp.assume(stale_idx > p.applied)
        is_err = inp.flag('stale_is_error')
        late = {'type': 'apply_command_response', 'request_id': ridA}
        late.update({'error': FAIL_REASON.NOT_LEADER} if is_err else {'log_idx': stale_idx, 'log_term': stale_term})
        _, exc = guard(recv, a_, late)
        callsB_after_stale = list(recB.calls)
        wc = get(o, 'commandsWaitingCommit')
        regsB_stale = [(i, t) for i, lst in wc.items() for t, cb in lst if cb is recB]
        new_idx, new_term = inp.int('new_idx', 1, 9), p.term + 1
        inp.assume(new_idx > p.applied)
        if exc is None:
            _, exc = guard(recv, c_, {'type': 'apply_command_response', 'request_id': ridB, 'log_idx': new_idx, 'log_term': new_term})
        regsB = [(i, t) for i, lst in get(o, 'commandsWaitingCommit').items() for t, cb in lst if cb is recB]
        regsA = [(i, t) for i, lst in get(o, 'commandsWaitingCommit').items() for t, cb in lst if cb is recA]
        cl['no_exception'] = exc is None
        cl['A_told_leader_changed_once'] = recA.calls == [(None, FAIL_REASON.LEADER_CHANGED)]
        cl['A_not_registered_for_commit'] = regsA == []
        cl['stale_reply_does_not_touch_B'] = callsB_after_stale == [] and regsB_stale == []
        cl['B_registered_under_its_own_reply_only'] = len(regsB) == 1 and bool(And(Eq(regsB[0][0], new_idx), Eq(regsB[0][1], new_term))) and recB.calls == []
    return Res(cl, nontrivial=True, obs=lambda: dict(calls=dict(A=show(recA.calls), B=show(recB.calls)), fwd=[(nd.id, m.get('request_id')) for nd, m in fwd], exc=show(exc)))


class _Raiser(Rec):
    """a user callback that raises"""

    def __call__(self, res, err):
        Rec.__call__(self, res, err)
        raise RuntimeError('callback failed')


@obligation('CB7', props=('C02', 'C01', 'C15'), quick=[dict(n=2), dict(n=3)], thorough=[dict(n=2), dict(n=3), dict(n=4)], stubs=_STUBS2,
            bounds='n<=4 committed add(x) entries (x symbolic) not yet applied; a subscriber of any one of them raises, an ordinary subscriber sits on every other one; the tick is repeated '
                   'twice, as the tick thread does after an exception')
def CB7(inp, n):
    """a callback that raises: whether or not the exception leaves the tick, no entry is executed twice when ticking goes on -
    the object state is the fold of the committed entries, each once -, the applied index reaches the commit index, the raising
    callback was called once and every other subscriber exactly once with its own result."""
    o, tr, now = _mk_acc(inp)
    commands, meta = _entries(inp, o, n, ('add',))
    p = so.sym_state(inp, o, now, n, role=F, term_hi=T_HI, base_hi=1, connected=(), commands=commands)
    inp.assume(And(p.deadline >= now + 10, Eq(p.applied, p.base), Eq(p.commit, p.last)))
    bad = inp.choice('raising_at', n - 1) + 1          # the entry at p.log[0] is applied already
    wc = get(o, 'commandsWaitingCommit')
    recs = {}
    for i in range(1, n):
        rec = _Raiser('e%d' % i) if i == bad else Rec('e%d' % i)
        wc[p.log[i][1]].append((p.log[i][2], rec))
        recs[i] = rec
    excs = []
    for _ in range(3):
        _, e = guard(o._onTick, 0.0)
        excs.append(e)
    q = so.post_state(o)
    results, total = _running_results(p, meta, p.base, p.last)
    cl = {'only_the_callback_exception_may_escape': all(e is None or isinstance(e, RuntimeError) for e in excs)}
    cl['each_entry_executed_once'] = And(Eq(o.total, total), len(o.seq) == n - 1)
    cl['applied_reaches_commit'] = Eq(q.applied, p.commit)
    cl['raising_callback_called_once'] = len(recs[bad].calls) == 1
    cl['other_callbacks_called_once_with_own_result'] = And([len(recs[i].calls) == 1 and And(Eq(recs[i].calls[0][0], results[i]), Eq(recs[i].calls[0][1], FAIL_REASON.SUCCESS))
                                                             for i in range(1, n) if i != bad] or [True])
    return Res(cl, nontrivial=True, obs=lambda: dict(n=n, raising_at=bad, total=show(o.total), seq=show(o.seq), applied=show(q.applied), excs=[show(e) for e in excs]))


@obligation('CB8', props=('C02',), quick=[dict()], stubs=_STUBS2,
            bounds='two incarnations (two objects, same node id) of a follower; each forwards its first k<=2 commands to the leader; any late reply for a request of the first incarnation '
                   '(error or index/term) reaches the second; 4 restarts in a row compared')
def CB8(inp):
    """forwarded requests across a restart: the request ids of a new process do not repeat those of its previous incarnation, so
    a late reply (or rejection) for a command the old process had forwarded - the leader may hold it in its queue for as long as
    it knows no leader - never reaches the callback of a command the new process forwarded."""
    ids = []
    objs = []
    now = inp.real('now', 0)
    clock = so.Clock(now)
    for gen in range(4):
        o, tr = so.make('a', IDS[1:3], clock, inp, cls=Acc)
        cmds.install(inp)
        put(o, 'raftLeader', Node('b')); put(o, 'raftElectionDeadline', now + 100)
        get(o, 'connectedNodes').add(Node('b'))
        recs = [Rec('g%d_%d' % (gen, i)) for i in range(2)]
        for i in range(2):
            o._applyCommand(cmds.regular(inp, o._methodToID['add_v0'], (1 + i,)), recs[i])
        o._checkCommandsToApply()
        fwd = [m for nd, m in tr.sent if m['type'] == 'apply_command']
        ids.append([m.get('request_id') for m in fwd])
        objs.append((o, recs))
    cl = {'all_forwarded_with_an_id': all(len(x) == 2 and None not in x for x in ids)}
    flat = [r for x in ids for r in x]
    cl['request_ids_unique_across_incarnations'] = len(set(flat)) == len(flat)
    # the late reply of the first incarnation's first request arrives at the last incarnation
    o, recs = objs[-1]
    is_err = inp.flag('late_is_error')
    late = {'type': 'apply_command_response', 'request_id': ids[0][0]}
    late.update({'error': FAIL_REASON.NOT_LEADER} if is_err else {'log_idx': inp.int('late_idx', 2, 9), 'log_term': inp.int('late_term', 0, 3)})
    _, exc = guard(getattr(o, P + 'onMessageReceived'), Node('b'), late)
    wc = get(o, 'commandsWaitingCommit')
    regs = [(i, t) for i, lst in wc.items() for t, cb in lst if cb in recs]
    cl['late_reply_reaches_no_callback_of_the_new_process'] = exc is None and all(r.calls == [] for r in recs) and regs == []
    return Res(cl, nontrivial=True, obs=lambda: dict(ids=ids, calls=[show(r.calls) for r in recs], exc=show(exc)))


class _TimeStub:
    """time module stand-in for the tick thread: sleep() records its argument and refuses a negative one like the real one"""

    def __init__(self):
        self.sleeps = []

    def sleep(self, s):
        self.sleeps.append(s)
        if bool(s < 0):
            raise ValueError('sleep length must be non-negative')

    def time(self):
        return 0.0


@obligation('X2', props=('C12', 'C05'), quick=[dict()], stubs=_STUBS2 + ('pysyncobj.syncobj.time=stub (sleep records, negative raises ValueError as the real one does)', '_onTick replaced: takes a symbolic duration on the virtual clock and raises the first time'),
            bounds='the real _autoTickThread loop; first tick fails after any duration >= 0 (shorter or longer than autoTickPeriod), the second succeeds and requests shutdown')
def X2(inp):
    import pysyncobj.syncobj as so_mod
    """the tick thread survives a failing tick of any duration: it logs, waits a non-negative time and ticks again (this is what
    lets a node recover from a transient failure inside a replicated method); it never leaves the loop through an exception."""
    o, tr, now = _mk_acc(inp)
    clock = so_mod.monotonicTime
    d = inp.real('tick_duration', 0)
    calls = []

    def fake_tick(timeToWait=0.0):
        calls.append(timeToWait)
        if len(calls) == 1:
            clock.now = clock.now + d
            raise RuntimeError('replicated method failed')
        put(o, 'destroying', True)
    o._onTick = fake_tick
    o._doDestroy = lambda: None
    import threading
    put(o, 'initialised', threading.Event()); put(o, 'mainThread', threading.current_thread())
    if not hasattr(tr, 'tryGetReady'):
        tr.tryGetReady = lambda: None
    real_time = so_mod.time
    stub = _TimeStub()
    so_mod.time = stub
    try:
        _, exc = guard(o._autoTickThread)
    finally:
        so_mod.time = real_time
    cl = {'thread_does_not_die': exc is None}
    cl['ticks_again_after_a_failed_tick'] = len(calls) == 2
    cl['sleeps_are_non_negative'] = And([s >= 0 for s in stub.sleeps] or [True])
    return Res(cl, nontrivial=True, obs=lambda: dict(calls=len(calls), sleeps=show(stub.sleeps), exc=show(exc)))


@obligation('CB9', props=('C02', 'C18'), quick=[dict(ro=False), dict(ro=True)], stubs=_STUBS2 + ('transport.send answers False for the forwarded command (the link to the known leader is down)',),
            bounds='a follower or read-only node that still regards b as leader forwards one command with a callback while transport.send() fails; afterwards a new leader announces itself (append_entries of a higher term) and a tick runs')
def CB9(inp, ro):
    """at most one callback per submission, also when the forward could not be handed to the transport: whatever the node tells
    the caller at once, the later leader change does not produce a second answer for the same command."""
    o, tr, now = _mk_acc(inp, 3, ro)
    p = so.sym_state(inp, o, now, 2, role=F, term_hi=3, base_hi=1, connected=())
    a_, c_ = Node('b'), Node('c')
    put(o, 'raftLeader', a_)
    put(o, 'raftElectionDeadline', now + 100)
    real_send = tr.send
    tr.send = lambda node, message: (real_send(node, message), False)[1] if message.get('type') == 'apply_command' else real_send(node, message)
    rec = Rec('A')
    _, exc = guard(o._applyCommand, cmds.regular(inp, o._methodToID['add_v0'], (1,)), rec)
    if exc is None:
        _, exc = guard(o._checkCommandsToApply)
    first = list(rec.calls)
    if exc is None:
        _, exc = guard(getattr(o, P + 'onMessageReceived'), c_, {'type': 'append_entries', 'term': p.term + 1, 'commit_index': 0, 'prevLogIdx': p.last, 'prevLogTerm': p.last_term, 'entries': []})
    if exc is None:
        _, exc = guard(o._onTick, 0.0)
    cl = {'no_exception': exc is None}
    cl['at_most_one_callback'] = len(rec.calls) <= 1
    cl['only_open_or_not_applied_outcomes'] = all(r is None and e in (FAIL_REASON.MISSING_LEADER, FAIL_REASON.LEADER_CHANGED, FAIL_REASON.NOT_LEADER) for r, e in rec.calls)
    return Res(cl, nontrivial=True, obs=lambda: dict(ro=ro, first=show(first), calls=show(rec.calls), exc=show(exc)))
