"""C08 / C06 / C11: the real FileJournal, ResizableFile and MetaStorer on a symbolic disk."""
import os
import shutil
import tempfile

from pvf.core import And, Or, Not, Implies, Iff, Eq, Ite
from pvf.registry import obligation, Res
from pvf import core, disk
from pvf.blob import Blob
from pvf.so import guard, show
import pysyncobj.journal as J

_STUBS = ('pysyncobj.journal.mmap/open/os/shutil = symbolic disk (file image is a blob rope, every primitive write logged)',
          'struct.pack/unpack, dumps/loads = mutually inverse total functions on blobs', 'len/int shadowed for symbolic sizes')
OPS = ('add', 'from', 'to', 'clear', 'commit', 'reopen')
SIZE_HI = 20000


def _entry_same(a, b):
    return bool(Eq(a[1], b[1])) and bool(Eq(a[2], b[2])) and bool(Blob.coerce(a[0]).same(b[0]))


def _journal_equals(j, ref):
    if len(j) != len(ref):
        return False
    return all(_entry_same(j[i], ref[i]) for i in range(len(ref)))


def _real_replay_j1(inp, k, first, size_hi):
    """concrete replay of J1 on real temporary files with the real mmap (no stub at all)"""
    disk.uninstall_journal()
    d = tempfile.mkdtemp(prefix='pvf-j1-')
    try:
        path = os.path.join(d, 'journal.bin')
        j = J.FileJournal(path)
        ref = J.MemoryJournal()
        cl, trace, exc, nadd, cur = {}, [], None, 0, 1
        for i in range(k):
            oi = first if (i == 0 and first is not None) else inp.choice('op%d' % i, len(OPS))
            op = OPS[oi]
            size = inp.int('size%d' % i, 0, size_hi) if op == 'add' else 0
            term = inp.int('term%d' % i, 0, 5) if op == 'add' else 0
            pos = inp.choice('pos%d' % i, 4) if op in ('from', 'to') else 0
            cv = inp.int('cv%d' % i, 1, 9) if op == 'commit' else 1
            try:
                if op == 'add':
                    nadd += 1
                    data = bytes((x * 37 + nadd * 11 + 1) % 251 for x in range(size))
                    j.add(data, nadd, term); ref.add(data, nadd, term)
                elif op == 'from':
                    pos = min(pos, len(ref)); j.deleteEntriesFrom(pos); ref.deleteEntriesFrom(pos)
                elif op == 'to':
                    pos = min(pos, len(ref)); j.deleteEntriesTo(pos); ref.deleteEntriesTo(pos)
                elif op == 'clear':
                    j.clear(); ref.clear()
                elif op == 'commit':
                    j.setRaftCommitIndex(cv); j.onOneSecondTimer(); cur = cv
                else:
                    j._destroy(); j = J.FileJournal(path)
            except Exception as e:
                exc = e
            trace.append((op, size if op == 'add' else pos, repr(exc)))
            cl['s%d_%s_no_exception' % (i, op)] = exc is None
            if exc is not None:
                break
            cl['s%d_%s_same_as_memory_journal' % (i, op)] = len(j) == len(ref) and all(tuple(j[x]) == tuple(ref[x]) for x in range(len(ref)))
            cl['s%d_%s_commit_index_is_the_last_one_set' % (i, op)] = j.getRaftCommitIndex() == cur
        if exc is None:
            j._destroy()
            j2 = J.FileJournal(path)
            cl['reopened_same_as_memory_journal'] = len(j2) == len(ref) and all(tuple(j2[x]) == tuple(ref[x]) for x in range(len(ref)))
            cl['reopened_commit_index_is_the_last_one_set'] = j2.getRaftCommitIndex() == cur
            j2._destroy()
        return Res(cl, obs=dict(trace=trace, real_files=True))
    finally:
        shutil.rmtree(d, ignore_errors=True)


def _j1_params(ks):
    out = []
    for k, hi in ks:
        if k == 1:
            out.append(dict(k=1, size_hi=hi))
        else:
            out.extend(dict(k=k, first=f, size_hi=hi) for f in range(len(OPS)))
    return out


@obligation('J1', props=('C08', 'C11', 'C06'), quick=_j1_params(((1, 70000), (2, 5000))), thorough=_j1_params(((1, 300000), (2, 20000), (3, 900))) + [dict(k=3, first=f, size_hi=2500) for f in range(1, len(OPS))],
            stubs=_STUBS,
            bounds='operation sequences of length <=4 (append of 0..20000 bytes = up to ~19x the 1 KiB file, drop tail, drop head, clear, commit-index update, close+reopen) after 1 pre-existing record; sizes and terms symbolic')
def J1(inp, k, first=None, size_hi=SIZE_HI):
    """after every operation, and after close+reopen (real parse loop on the symbolic image), the file journal holds
    exactly the entries of the in-memory journal given the same operations; no operation raises; the file always
    covers offset+len of every write (journal growth)."""
    if inp.concrete:
        return _real_replay_j1(inp, k, first, size_hi)
    fs = disk.install_journal(False)
    j = J.FileJournal('jf')
    ref = J.MemoryJournal()
    cl, trace, exc, nadd, cur = {}, [], None, 0, 1
    for i in range(k):
        oi = first if (i == 0 and first is not None) else inp.choice('op%d' % i, len(OPS))
        op = OPS[oi]
        size = inp.int('size%d' % i, 0, size_hi) if op == 'add' else 0
        term = inp.int('term%d' % i, 0, 5) if op == 'add' else 0
        pos = inp.choice('pos%d' % i, 4) if op in ('from', 'to') else 0
        cv = inp.int('cv%d' % i, 1, 9) if op == 'commit' else 1
        if op == 'add':
            nadd += 1
            data = disk.payload(fs, nadd, size)
            _, exc = guard(j.add, data, nadd, term)
            ref.add(data, nadd, term)
        elif op == 'from':
            pos = min(pos, len(ref))
            _, exc = guard(j.deleteEntriesFrom, pos)
            ref.deleteEntriesFrom(pos)
        elif op == 'to':
            pos = min(pos, len(ref))
            _, exc = guard(j.deleteEntriesTo, pos)
            ref.deleteEntriesTo(pos)
        elif op == 'clear':
            _, exc = guard(j.clear)
            ref.clear()
        elif op == 'commit':
            _, exc = guard(lambda: (j.setRaftCommitIndex(cv), j.onOneSecondTimer()))
            cur = cv
        else:
            j, exc = guard(J.FileJournal, 'jf')
        trace.append((op, show(size) if op == 'add' else pos, show(exc)))
        cl['s%d_%s_no_exception' % (i, op)] = exc is None
        if exc is not None:
            break
        cl['s%d_%s_same_as_memory_journal' % (i, op)] = _journal_equals(j, ref)
        cl['s%d_%s_commit_index_is_the_last_one_set' % (i, op)] = Eq(j.getRaftCommitIndex(), cur)
    if exc is None:
        j2, exc2 = guard(J.FileJournal, 'jf')
        cl['reopen_no_exception'] = exc2 is None
        if exc2 is None:
            cl['reopened_same_as_memory_journal'] = _journal_equals(j2, ref)
            cl['reopened_commit_index_is_the_last_one_set'] = Eq(j2.getRaftCommitIndex(), cur)
    return Res(cl, nontrivial=True, obs=lambda: dict(trace=trace, nfiles=len(fs.files)), vars=dict(ops=[t[0] for t in trace]))


# ---------------------------------------------------------------------------------------
def _reopen_at(fs, c):
    saved = fs.files
    fs.files = fs.snapshot(c)
    fs.recording = False
    try:
        return guard(J.FileJournal, 'jf')
    finally:
        fs.files = saved
        fs.recording = True


def _is_range(j, prev, lo_keep, hi_keep):
    """j == prev[a:b] for some a <= lo_keep, b >= hi_keep (contiguous range containing prev[lo_keep:hi_keep])"""
    n = len(j)
    for a in range(0, len(prev) - n + 1):
        b = a + n
        if hi_keep > lo_keep and not (a <= lo_keep and b >= hi_keep):
            continue
        if all(_entry_same(j[i], prev[a + i]) for i in range(n)):
            return True
    return False


CRASH_OPS = ('add', 'from', 'to', 'clear', 'commit')


def _j3_params(rs):
    out = []
    for r in rs:
        for op in CRASH_OPS:
            if op in ('from', 'to'):
                out.extend(dict(r=r, op=op, pos=p) for p in range(r + 1))
            else:
                out.append(dict(r=r, op=op))
    return out


@obligation('J3', props=('C08', 'C06'), quick=_j3_params((1, 2)) + [dict(r=3, op='add'), dict(r=3, op='from', pos=1)],
            thorough=[q for q in _j3_params((1, 2, 3, 4)) if not (q['r'] == 4 and q['op'] == 'to' and q.get('pos') in (1, 2))],
            stubs=_STUBS + ('a kill takes effect between two primitive writes (mmap slice assignment, resize, file create/append, rename); torn single writes and lost page-cache are outside',),
            bounds='r<=4 existing records (sizes 0..200, the new record 0..3000), one operation with a kill before/after each of its primitive writes (cut position is a case split: enumeration, not solving), then reopen')
def J3(inp, r, op, pos=0):
    """kill-safety: if the process dies between two primitive writes of an operation, the reopened journal holds a contiguous
    range of the previous entries that includes everything the operation keeps (append: all-or-nothing); the stored commit
    index is one that was set (or the default)."""
    fs = disk.install_journal(inp.concrete)
    j = J.FileJournal('jf')
    prev = []
    for i in range(r):
        s = inp.int('size%d' % i, 0, 200)        # existing records stay inside the initial 1 KiB file (growth is J1's subject)
        e = (disk.payload(fs, i + 1, s), i + 1, inp.int('term%d' % i, 0, 5))
        j.add(*e)
        prev.append(e)
    j.setRaftCommitIndex(1)
    j.onOneSecondTimer()
    fs.mark()
    new = None
    cv = inp.int('cv', 2, 9)
    if op == 'add':
        new = (disk.payload(fs, 99, inp.int('newsize', 0, 3000)), r + 1, inp.int('newterm', 0, 5))
        _, exc = guard(j.add, *new)
    elif op == 'from':
        _, exc = guard(j.deleteEntriesFrom, pos)
    elif op == 'to':
        _, exc = guard(j.deleteEntriesTo, pos)
    elif op == 'clear':
        _, exc = guard(j.clear)
    else:
        _, exc = guard(lambda: (j.setRaftCommitIndex(cv), j.onOneSecondTimer()))
    nprim = len(fs.log)
    cut = inp.choice('cut', nprim + 1)
    j2, exc2 = _reopen_at(fs, cut)
    cl = {'operation_no_exception': exc is None, 'reopen_no_exception': exc2 is None}
    if exc2 is None:
        got = [j2[i] for i in range(len(j2))]
        if op == 'add':
            ok = _is_range(got, prev, 0, len(prev)) or (len(got) == r + 1 and _is_range(got[:-1], prev, 0, r) and _entry_same(got[-1], new))
            cl['append_all_or_nothing'] = ok
            if cut == nprim:
                cl['completed_append_visible'] = len(got) == r + 1
        elif op == 'from':
            cl['tail_drop_keeps_prefix'] = _is_range(got, prev, 0, pos) and (len(got) == 0 or _entry_same(got[0], prev[0]))
            if cut == nprim:
                cl['completed_tail_drop'] = len(got) == pos
        elif op == 'to':
            cl['head_drop_keeps_suffix'] = _is_range(got, prev, pos, r)
            if cut == nprim:
                cl['completed_head_drop'] = len(got) == r - pos
        elif op == 'clear':
            cl['clear_is_all_or_nothing'] = len(got) == 0 or _is_range(got, prev, 0, r)
        else:
            cl['entries_untouched_by_commit_update'] = _is_range(got, prev, 0, r)
        cidx = j2.getRaftCommitIndex()
        cl['commit_index_is_one_that_was_set'] = Or(Eq(cidx, 1), Eq(cidx, cv) if op == 'commit' else False)
        if op == 'commit' and cut == nprim:
            cl['completed_commit_update_visible'] = Eq(cidx, cv)
    return Res(cl, nontrivial=cut < nprim, obs=lambda: dict(op=op, r=r, pos=pos, cut=cut, prims=[w for w, _ in fs.log],
                                                            reopened=len(j2) if exc2 is None else None, exc=show(exc), exc2=show(exc2)),
               vars=dict(op=op, cut=cut, nprim=nprim, pos=pos, r=r))


@obligation('J5', props=('C08', 'C06'), quick=[dict(n=n, pos=p) for n in (10, 11, 12) for p in range(0, 4)] + [dict(n=12, pos=12), dict(n=11, pos=6), dict(n=21, pos=2), dict(n=21, pos=1)],
            thorough=[dict(n=n, pos=p) for n in (10, 11, 12, 20, 21, 22) for p in range(n + 1)], stubs=_STUBS,
            bounds='n in 10..22 records of size 0 or 7 (the tail-drop code checkpoints every 10 removed records), drop of any tail, one more append, reopen')
def J5(inp, n, pos):
    """long tails: dropping any number of records (including exact multiples of the 10-record checkpoint interval) and
    appending again leaves file and memory journal equal, also after close+reopen."""
    fs = disk.install_journal(inp.concrete)
    j = J.FileJournal('jf')
    ref = J.MemoryJournal()
    size = (0, 7)[inp.choice('size', 2)]          # concrete: this obligation is about record counts, sizes are J1's subject
    for i in range(n):
        d_ = disk.payload(fs, i + 1, size)
        j.add(d_, i + 1, 0)
        ref.add(d_, i + 1, 0)
    _, exc = guard(j.deleteEntriesFrom, pos)
    ref.deleteEntriesFrom(pos)
    cl0 = {}
    if exc is None:
        fs.recording = False
        jr, excr = guard(J.FileJournal, 'jf')             # a restart right after the tail drop
        fs.recording = True
        cl0['reopen_after_drop_no_exception'] = excr is None
        if excr is None:
            cl0['reopened_after_drop_same_as_memory_journal'] = _journal_equals(jr, ref)
    new = disk.payload(fs, 99, inp.int('newsize', 0, 40))
    if exc is None:
        _, exc = guard(j.add, new, pos + 1, 1)
        ref.add(new, pos + 1, 1)
    cl = {'no_exception': exc is None}
    cl.update(cl0)
    if exc is None:
        cl['same_as_memory_journal'] = _journal_equals(j, ref)
        j2, exc2 = guard(J.FileJournal, 'jf')
        cl['reopen_no_exception'] = exc2 is None
        if exc2 is None:
            cl['reopened_same_as_memory_journal'] = _journal_equals(j2, ref)
    return Res(cl, nontrivial=(n - pos) % 10 == 0 and pos < n, obs=lambda: dict(n=n, pos=pos, removed=n - pos, exc=show(exc)))


@obligation('J6', props=('C08', 'C06'), quick=[dict()], stubs=_STUBS, bounds='creation of a journal file on an empty disk followed by one append of 0..40 bytes; kill before/after every primitive write')
def J6(inp):
    """kill while the journal file is being created: whatever prefix of the primitive writes reached the disk, the next start
    opens the journal without an exception and finds nothing that was not stored (the file is empty, holds the header, or holds
    the header and the first record)."""
    fs = disk.install_journal(inp.concrete)          # the replay runs on concrete bytes: an exception that only the symbolic blobs cause does not reproduce
    fs.mark()
    j, exc = guard(J.FileJournal, 'jf')
    rec = disk.payload(fs, 1, inp.int('size', 0, 40))
    if exc is None:
        _, exc = guard(j.add, rec, 1, 0)
    nprim = len(fs.log)
    cut = inp.choice('cut', nprim + 1)
    j2, exc2 = _reopen_at(fs, cut)
    cl = {'no_exception': exc is None}
    cl['reopen_no_exception'] = exc2 is None
    if exc2 is None:
        cl['reopened_holds_nothing_or_the_record'] = len(j2) == 0 or (len(j2) == 1 and _entry_same(j2[0], (rec, 1, 0)))
        if cut == nprim:
            cl['completed_append_visible'] = len(j2) == 1
    return Res(cl, nontrivial=True, obs=lambda: dict(cut=cut, prims=[p_[0] for p_ in fs.log], exc=show(exc), exc2=show(exc2)))
