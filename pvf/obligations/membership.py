"""C10: dynamic membership -- leader-side gate and one-at-a-time (M1/M2), member set = fold of the log on
followers incl. roll-back on truncation and re-apply at commit (M3), admin entry points (MA)."""
from pvf.core import And, Or, Not, Implies, Iff, Eq, Ite
from pvf.registry import obligation, Res
from pvf import so, cmds, core
from pvf.so import F, C, L, get, put, guard, show, Node
from pvf.obligations.apply import Rec
import pysyncobj.syncobj as so_mod
import pysyncobj.pickle as real_pickle
from pysyncobj.syncobj import _bchr, _COMMAND_TYPE
from pysyncobj.config import FAIL_REASON
from pysyncobj.node import TCPNode

_STUBS = ('transport=RecTransport (records addNode/dropNode)', 'monotonicTime=Clock', 'membership commands are real pickled bytes')
T_HI = 4
POOL = ('b', 'c', 'd', 'e')


def mcmd(kind, nid):
    return _bchr(_COMMAND_TYPE.MEMBERSHIP) + real_pickle.dumps([kind, nid, Node(nid)])


def fold(members, entries):
    """member set defined by the membership commands of `entries` applied in order to `members` (ids)"""
    s = set(members)
    for e in entries:
        c = e[0]
        if isinstance(c, (bytes, bytearray)) and c[:1] == _bchr(_COMMAND_TYPE.MEMBERSHIP):
            kind, nid, _ = real_pickle.loads(c[1:])
            if kind == 'add':
                s.add(nid)
            else:
                s.discard(nid)
    return s


class DropTransport(so.RecTransport):
    """like the TCP transport, dropping a node closes its connection and reports the disconnect"""

    def dropNode(self, node):
        so.RecTransport.dropNode(self, node)
        self._onNodeDisconnected(node)


def _mk(inp, members, **kw):
    now = inp.real('now', 0)
    so_mod.pickle = real_pickle
    o, tr0 = so.make('a', list(members), so.Clock(now), inp, dynamicMembershipChange=True, **kw)
    tr = DropTransport()
    tr.setOnNodeDisconnectedCallback(getattr(o, so.P + 'onNodeDisconnected'))
    put(o, 'transport', tr)
    return o, tr, now


def _effective_change(inp, tag, members, pool=POOL):
    """an effective change for the given member set: add a non-member or remove a member"""
    cands = [('add', x) for x in pool if x not in members] + [('rem', x) for x in sorted(members)]
    return cands[inp.choice(tag, len(cands))]


@obligation('M1', props=('C10', 'C04', 'C20', 'C14'), quick=[dict(n=3)], thorough=[dict(n=3), dict(n=4)], stubs=_STUBS,
            bounds='leader of a 3-node cluster, n<=4 log entries with the own-term no-op at any position, at most one earlier membership entry at any position (pending or applied), any applied/commit index; request: add member/non-member, remove member/non-member/self')
def M1(inp, n):
    """leader-side gate: a membership command is appended only if the leader has applied its own-term no-op and no earlier
    membership entry is still unapplied; then it changes the member set by exactly one node (never the leader itself) and the
    pending change is remembered; otherwise REQUEST_DENIED is reported once and neither log nor member set change."""
    members = ('b', 'c')
    o, tr, now = _mk(inp, members)
    term = inp.int('term', 1, T_HI)
    base = inp.int('base', 1, 2)
    noop_pos = inp.choice('noop_pos', n)
    mpos = inp.choice('mem_pos', n + 1) - 1            # -1: no earlier membership entry
    inp.assume(mpos != noop_pos)
    cur = set(members)
    log = []
    mem_change = None
    ts = []
    for i in range(n):
        if i < noop_pos:
            t = inp.int('t%d' % i, 0, T_HI)
            inp.assume(t < term)
            if ts:
                inp.assume(t >= ts[-1])
        else:
            t = term
        ts.append(t)
        if i == mpos:
            mem_change = _effective_change(inp, 'mem_kind', cur)
            cmd = mcmd(*mem_change)
            cur = fold(cur, [(cmd,)])
        else:
            cmd = so.NOOP
        log.append((cmd, base + i, t))
    so.set_log(o, log)
    last = base + n - 1
    applied = inp.int('applied', 1, 7)
    commit = inp.int('commit', 1, 7)
    inp.assume(And(base <= applied, applied <= commit, commit <= last))
    put(o, 'raftCurrentTerm', term); put(o, 'raftState', L); put(o, 'raftLeader', Node('a'))
    put(o, 'raftCommitIndex', commit); put(o, 'raftLastApplied', applied)
    put(o, 'noopIDx', base + noop_pos)
    put(o, 'otherNodes', set(Node(x) for x in cur))
    own_term_pending = mpos >= 0 and mpos > noop_pos
    stale = None
    if not own_term_pending and inp.flag('stale_change_index'):
        # left over from an earlier leadership of this node (the field is only cleared lazily): some index below the own-term no-op
        stale = inp.int('stale_idx', 1, 8)
        inp.assume(stale < base + noop_pos)
    put(o, 'changeClusterIDx', (base + mpos) if own_term_pending else stale)
    for x in cur:
        get(o, 'raftNextIndex')[Node(x)] = last + 1
        get(o, 'raftMatchIndex')[Node(x)] = 0
        get(o, 'lastResponseTime')[Node(x)] = now
    put(o, 'newAppendEntriesTime', now + 1)
    for x in cur:
        get(o, 'connectedNodes').add(Node(x))
    reqs = [('add', x) for x in POOL] + [('rem', x) for x in POOL] + [('rem', 'a'), ('add', 'a')]
    rk, rid = reqs[inp.choice('request', len(reqs))]
    rec = Rec('cb')
    pre_members = set(cur)
    _, exc = guard(o._applyCommand, mcmd(rk, rid), rec)
    _, exc2 = guard(o._checkCommandsToApply)
    q_log = so.log_of(o)
    post_members = set(x.id for x in o.otherNodes)
    appended = len(q_log) == n + 1
    effective = (rk == 'add' and rid not in pre_members and rid != 'a') or (rk == 'rem' and rid in pre_members)
    pending = And(mpos >= 0, (base + mpos) > applied) if mpos >= 0 else False
    gate_open = And(applied >= base + noop_pos, Not(pending))
    cl = {'no_exception': exc is None and exc2 is None}
    cl['log_grows_by_at_most_the_request'] = len(q_log) in (n, n + 1) and so.logs_equal(log, q_log[:n])
    cl['appended_only_if_gate_open_and_effective'] = Implies(appended, And(gate_open, effective))
    cl['appended_when_gate_open_and_effective'] = Implies(And(gate_open, effective), appended)
    if appended:
        cl['appended_entry'] = q_log[-1][0] == mcmd(rk, rid) and bool(Eq(q_log[-1][1], last + 1)) and bool(Eq(q_log[-1][2], term))
        cl['exactly_one_member_changes'] = post_members == fold(pre_members, [q_log[-1]]) and len(post_members ^ pre_members) == 1 and 'a' not in post_members
        cl['pending_change_remembered'] = Eq(get(o, 'changeClusterIDx'), last + 1)
        cl['callback_waits_for_commit'] = len(rec.calls) == 0
        reg = [(k, nd.id) for k, nd in tr.registry]
        cl['transport_registry_follows'] = reg == [('add' if rk == 'add' else 'drop', rid)]
        cl['tables_follow'] = (Node(rid) in get(o, 'raftNextIndex')) == (rk == 'add') and (Node(rid) in get(o, 'raftMatchIndex')) == (rk == 'add')
        if rk == 'rem':
            cl['removed_member_no_longer_reported_connected'] = not o.isNodeConnected(Node(rid))
        if rk == 'add':
            cl['new_member_counted_for_nothing_yet'] = And(Eq(get(o, 'raftMatchIndex')[Node(rid)], 0), get(o, 'raftNextIndex')[Node(rid)] <= last + 2, get(o, 'raftNextIndex')[Node(rid)] >= 1)
    else:
        cl['denied_once'] = rec.calls == [(None, FAIL_REASON.REQUEST_DENIED)]
        cl['member_set_untouched'] = post_members == pre_members and len(tr.registry) == 0
    return Res(cl, nontrivial=effective, obs=lambda: dict(request=(rk, rid), earlier=mem_change, mem_pos=mpos, noop_pos=noop_pos, appended=appended,
                                                          members=sorted(post_members), calls=show(rec.calls), exc=show(exc2)))


def _m3_params(nms):
    return [dict(n=n, m=m, pli=p) for n, m in nms for p in range(1, n + 1)]


@obligation('M3', props=('C10', 'C01'), quick=_m3_params([(2, 1), (3, 1), (2, 2), (2, 0)]),
            thorough=_m3_params([(n, m) for n in (2, 3, 4) for m in (0, 1, 2)]), stubs=_STUBS,
            bounds='follower log n<=4 entries, batch m<=2; membership entries (each effective where it stands) at any positions of the old tail and of the new entries; symbolic terms / prevLogIdx (conflicts and matches), any commit field')
def M3(inp, n, m, pli):
    """member set = log: after any append_entries (incl. truncation of a conflicting tail that holds membership entries,
    and entries already present) the node's member set equals the fold of the membership commands in its log over the
    set below the log; per-member tables and transport registry follow; applying committed membership entries at a tick
    does not change the set again."""
    S0 = ('b', 'c')
    o, tr, now = _mk(inp, S0)
    term = inp.int('term', 0, T_HI)
    ts = [inp.int('lt%d' % i, 0, T_HI) for i in range(n)]
    for i in range(n - 1):
        inp.assume(ts[i] <= ts[i + 1])
    inp.assume(ts[-1] <= term)
    cur = set(S0)
    log = []
    kinds = []
    for i in range(n):
        if i > 0 and inp.flag('mem%d' % i):
            ch = _effective_change(inp, 'ch%d' % i, cur, ('b', 'c', 'd'))
            cmd = mcmd(*ch)
            cur = fold(cur, [(cmd,)])
            kinds.append(ch)
        else:
            cmd = so.NOOP
            kinds.append(None)
        log.append((cmd, 1 + i, ts[i]))
    so.set_log(o, log)
    put(o, 'raftCurrentTerm', term)
    put(o, 'otherNodes', set(Node(x) for x in cur))
    put(o, 'raftElectionDeadline', now + 100)
    pre_members = set(cur)
    # the message: prevLogIdx anywhere in the log, new entries possibly with membership changes
    mterm = inp.int('mterm', 0, T_HI + 1)
    plt = inp.int('plt', 0, T_HI + 1)
    mci = inp.int('mci', 0, n + m + 1)
    es = [inp.int('e%d' % i, 0, T_HI + 1) for i in range(m)]
    for i in range(m):
        inp.assume(es[i] >= (plt if i == 0 else es[i - 1]))
    inp.assume((es[-1] if m else plt) <= mterm)
    inp.assume(mterm >= term)
    # concretise prevLogIdx: the new entries' membership content depends on the member set at that point
    pli_c = pli
    at_prev = fold(S0, log[:pli_c])
    newcur = set(at_prev)
    entries = []
    for i in range(m):
        idx = pli_c + 1 + i
        same_as_old = idx <= n and inp.flag('same%d' % i)
        if same_as_old:
            cmd = log[idx - 1][0]                 # the leader re-sends an entry the follower already has
            inp.assume(Eq(es[i], ts[idx - 1]))
            newcur = fold(newcur, [(cmd,)])
        elif inp.flag('newmem%d' % i):
            ch = _effective_change(inp, 'nch%d' % i, newcur, ('b', 'c', 'd'))
            cmd = mcmd(*ch)
            newcur = fold(newcur, [(cmd,)])
            if idx <= n:
                inp.assume(Not(Eq(es[i], ts[idx - 1])))      # a different command at an index must have a different term
        else:
            cmd = so.NOOP
            if idx <= n and log[idx - 1][0] != so.NOOP:
                inp.assume(Not(Eq(es[i], ts[idx - 1])))
        entries.append((cmd, idx, es[i]))
    msg = {'type': 'append_entries', 'term': mterm, 'commit_index': mci, 'prevLogIdx': pli_c, 'prevLogTerm': plt, 'entries': entries}
    _, exc = guard(getattr(o, so.P + 'onMessageReceived'), Node('b'), msg)
    q_log = so.log_of(o)
    post_members = set(x.id for x in o.otherNodes)
    want = fold(S0, q_log)
    cl = {'no_exception': exc is None}
    cl['member_set_equals_fold_of_log'] = post_members == want
    cl['never_contains_self'] = 'a' not in post_members
    nxt, mt = get(o, 'raftNextIndex'), get(o, 'raftMatchIndex')
    cl['tables_cover_added_members'] = all(Node(x) in nxt and Node(x) in mt and bool(Eq(mt[Node(x)], 0)) for x in post_members - pre_members)
    cl['tables_drop_removed_members'] = all(Node(x) not in nxt and Node(x) not in mt for x in pre_members - post_members)
    # transport registry: net effect of the recorded calls on the pre set gives the post set
    reg = set(pre_members)
    for k, nd in tr.registry:
        if k == 'add':
            reg.add(nd.id)
        else:
            reg.discard(nd.id)
    cl['transport_registry_follows'] = reg == post_members
    # applying what is committed must not change the member set again
    _, exc2 = guard(o._onTick, 0.0)
    cl['apply_keeps_member_set'] = exc2 is None and set(x.id for x in o.otherNodes) == post_members
    changed = post_members != pre_members
    named = [real_pickle.loads(e[0][1:])[1] for e in q_log if isinstance(e[0], (bytes, bytearray)) and e[0][:1] == _bchr(_COMMAND_TYPE.MEMBERSHIP)]
    same_node_twice = len(named) != len(set(named))
    return Res(cl, nontrivial=changed, obs=lambda: dict(pre_kinds=kinds, pli=pli_c, entries=[(show(e[1]), e[0][:1].hex()) for e in entries],
                                                        pre=sorted(pre_members), post=sorted(post_members), want=sorted(want),
                                                        post_log_len=len(q_log), registry=[(k, nd.id) for k, nd in tr.registry], exc=show(exc)),
               vars=dict(same_node_twice=same_node_twice))


@obligation('MA', props=('C10',), quick=[dict()], stubs=_STUBS + ('selfNode is a TCPNode (admin path compares addresses)',),
            bounds='admin add / remove request for self, a member, a non-member; dynamic membership on / off')
def MA(inp):
    """admin entry points: removing the node itself is refused with REQUEST_DENIED and nothing is queued; other requests
    queue exactly one membership command naming that node; with dynamic membership disabled every request raises."""
    now = inp.real('now', 0)
    so_mod.pickle = real_pickle
    so.install(so.Clock(now), inp)
    from pysyncobj.syncobj import SyncObj, SyncObjConf
    dyn = inp.flag('dynamic')
    tr = so.RecTransport()
    o = SyncObj(TCPNode('h1:1'), [TCPNode('h2:1'), TCPNode('h3:1')], conf=SyncObjConf(autoTick=False, dynamicMembershipChange=dyn), transport=tr)
    seen = []
    o._applyCommand = lambda command, callback, commandType=None: seen.append((command, commandType))
    op = inp.choice('op', 2)
    target = ('h1:1', 'h2:1', 'h9:1')[inp.choice('target', 3)]
    rec = Rec('cb')
    _, exc = guard(o._addNodeToCluster if op == 0 else o._removeNodeFromCluster, [target], rec)
    cl = {}
    if op == 1 and target == 'h1:1':
        cl['self_removal_denied'] = exc is None and rec.calls == [(None, FAIL_REASON.REQUEST_DENIED)] and not seen
    elif not dyn:
        cl['disabled_raises'] = exc is not None and not seen
    else:
        cl['one_membership_command_queued'] = exc is None and len(seen) == 1 and seen[0][1] == _COMMAND_TYPE.MEMBERSHIP
        if len(seen) == 1:
            req = real_pickle.loads(seen[0][0])
            cl['command_names_the_node'] = req[0] == ('add' if op == 0 else 'rem') and req[1] == target
    return Res(cl, nontrivial=True, obs=lambda: dict(op=op, target=target, dyn=dyn, exc=show(exc), calls=show(rec.calls)))


@obligation('M1b', props=('C10',), quick=[dict(n=2)], thorough=[dict(n=2), dict(n=3)], stubs=_STUBS,
            bounds='candidate of a 3-node cluster one vote short of the majority, log n<=3, any applied/commit index; wins the election, then a membership request is dispatched before anything of the new term is committed')
def M1b(inp, n):
    """no-op gate end to end: a node that has just won an election refuses a membership change (REQUEST_DENIED, log and member
    set untouched) until it has applied the no-op of its own term - composition of the real become-leader step and the real dispatch."""
    members = ('b', 'c')
    o, tr, now = _mk(inp, members)
    p = so.sym_state(inp, o, now, n, role=C, term_hi=T_HI, base_hi=2, connected=())
    put(o, 'votesCount', 1)
    _, exc = guard(getattr(o, so.P + 'onMessageReceived'), Node('b'), {'type': 'response_vote', 'term': p.term})
    won = o._isLeader()
    rec = Rec('cb')
    pre_log = so.log_of(o)
    _, exc1 = guard(o._applyCommand, mcmd('add', 'd'), rec)
    _, exc2 = guard(o._checkCommandsToApply)
    cl = {'no_exception': exc is None and exc1 is None and exc2 is None, 'wins': won}
    cl['change_refused_before_own_noop_is_applied'] = rec.calls == [(None, FAIL_REASON.REQUEST_DENIED)]
    cl['log_and_members_untouched'] = len(so.log_of(o)) == len(pre_log) and set(x.id for x in o.otherNodes) == set(members)
    return Res(cl, nontrivial=won, obs=lambda: dict(won=won, calls=show(rec.calls), noop=show(get(o, 'noopIDx')), applied=show(o.raftLastApplied)))


@obligation('EJ', props=('C10',), quick=[dict()], stubs=_STUBS,
            bounds='the end of the history of findings/F-REJOIN_demo.py as a pre-state: member A was removed (committed by B and D while C lagged), shut down and started again as a fresh empty '
                   'process with the current member list [B, C, D]; C still has the initial log and the initial member set {A, B, C}; B leads term t (1..3) with committed entries; '
                   'C\'s election timer fires, the fresh A answers (real tick, real vote handling, real count)')
def EJ(inp):
    """operator discipline of C10 (a removed node returns only as a fresh, empty process): such a process must not help a member
    that missed the membership history to a majority - no second leader in a term that already has one."""
    now = inp.real('now', 0)
    clock = so.Clock(now)
    so_mod.pickle = real_pickle
    t = inp.int('t', 1, 3)
    # B: leader of term t of the current cluster {B, C, D}
    bo, btr = so.make('b', ['c', 'd'], clock, inp, dynamicMembershipChange=True)
    so.set_log(bo, [(so.NOOP, 1, 0), (so.NOOP, 2, t), (so.NOOP, 3, t)])
    put(bo, 'raftCurrentTerm', t); put(bo, 'raftState', L); put(bo, 'raftLeader', Node('b')); put(bo, 'raftCommitIndex', 3); put(bo, 'raftLastApplied', 3)
    # C: never heard of anything: initial log, the term before, initial member set {A, B, C}; only the fresh A is connected to it
    co, ctr = so.make('c', ['a', 'b'], clock, inp, dynamicMembershipChange=True)
    put(co, 'raftCurrentTerm', t - 1)
    put(co, 'raftElectionDeadline', now - 1)
    get(co, 'connectedNodes').add(Node('a'))
    # A': fresh, empty, started with the current member list
    ao, atr = so.make('a', ['b', 'c', 'd'], clock, inp, dynamicMembershipChange=True)
    put(ao, 'raftElectionDeadline', now + 100)
    get(ao, 'connectedNodes').add(Node('c'))
    _, exc = guard(co._onTick, 0.0)                      # C becomes a candidate of term t and asks A and B
    for nd, m in list(ctr.sent):
        if nd == Node('a') and exc is None:
            _, exc = guard(getattr(ao, so.P + 'onMessageReceived'), Node('c'), m)
    for nd, m in list(atr.sent):
        if nd == Node('c') and exc is None:
            _, exc = guard(getattr(co, so.P + 'onMessageReceived'), Node('a'), m)
    cl = {'no_exception': exc is None}
    cl['no_second_leader_in_the_term'] = Not(And(co._isLeader(), bo._isLeader(), Eq(get(co, 'raftCurrentTerm'), get(bo, 'raftCurrentTerm'))))
    return Res(cl, nontrivial=True, obs=lambda: dict(t=show(t), c_term=show(get(co, 'raftCurrentTerm')), c_leader=co._isLeader(), b_leader=bo._isLeader(),
                                                     votes=show(get(co, 'votesCount')), exc=show(exc)), vars=dict(t=t))
