"""C15 (batteries vs. Python containers) and C16 (replicated locks) on the real battery classes,
called with _doApply=True (no SyncObj needed)."""
import collections
import heapq

from pvf.core import And, Or, Not, Implies, Iff, Eq, Ite, Count
from pvf.registry import obligation, Res
from pvf import so, core
from pvf.so import guard, show
import pysyncobj.batteries as bt

ELT_HI = 2


def _same(a, b):
    """value-level equality of results (ints/proxies/None/bools/lists/tuples)"""
    if isinstance(a, (list, tuple, collections.deque)) or isinstance(b, (list, tuple, collections.deque)):
        if not (isinstance(a, (list, tuple, collections.deque)) and isinstance(b, (list, tuple, collections.deque))):
            return False
        a, b = list(a), list(b)
        if len(a) != len(b):
            return False
        return And([_same(x, y) for x, y in zip(a, b)] or [True])
    if a is None or b is None:
        return a is None and b is None
    if not core.is_sym(a) and not core.is_sym(b) and type(a) is not type(b):
        return False                      # 1, True and 1.0 are different results
    if isinstance(a, bool) or isinstance(b, bool):
        if core.is_sym(a) or core.is_sym(b):
            return Eq(a, b)
        return a is b
    return Eq(a, b)


def _step(cl, tag, bat_call, ref_call):
    r1, e1 = guard(bat_call)
    r2, e2 = guard(ref_call)
    cl[tag + '_same_exception'] = type(e1) is type(e2)
    if e1 is None and e2 is None:
        cl[tag + '_same_result'] = _same(r1, r2)
    return (r1, e1, r2, e2)


def _elt(inp, name, hi=ELT_HI):
    return inp.int(name, 0, hi)


# ---------------------------------------------------------------------------------------
LIST_OPS = ('append', 'insert', 'remove', 'pop', 'pop_default', 'set', 'setitem', 'extend', 'sort', 'sort_rev', 'index', 'count', 'get', 'reset', 'sort_rev_mixed')
DICT_OPS = ('set', 'setitem', 'setdefault', 'setdefault_nodefault', 'pop', 'pop_default', 'update', 'clear', 'get', 'get_default', 'getitem', 'contains', 'len', 'reset')
SET_OPS = ('add', 'remove', 'discard', 'update', 'clear', 'contains', 'len', 'reset', 'pop_single', 'pop_any')
CNT_OPS = ('set', 'add', 'sub', 'inc', 'get')
Q_OPS = ('put', 'get', 'get_default', 'full', 'empty', 'qsize')


def _list_op(inp, i, op, b, ref):
    x, y = _elt(inp, 'a%d' % i), _elt(inp, 'b%d' % i)
    pos = inp.int('p%d' % i, -3, 3)
    D = dict(_doApply=True)
    return {
        'append': (lambda: b.append(x, **D), lambda: ref.append(x)),
        'insert': (lambda: b.insert(pos, x, **D), lambda: ref.insert(pos, x)),
        'remove': (lambda: b.remove(x, **D), lambda: ref.remove(x)),
        'pop': (lambda: b.pop(pos, **D), lambda: ref.pop(pos)),
        'pop_default': (lambda: b.pop(**D), lambda: ref.pop()),
        'set': (lambda: b.set(pos, x, **D), lambda: ref.__setitem__(pos, x)),
        'setitem': (lambda: b.__setitem__(pos, x, **D), lambda: ref.__setitem__(pos, x)),
        'extend': (lambda: b.extend([x, y], **D), lambda: ref.extend([x, y])),
        'sort': (lambda: b.sort(**D), lambda: ref.sort()),
        'sort_rev': (lambda: b.sort(reverse=True, **D), lambda: ref.sort(reverse=True)),
        'index': (lambda: b.index(x), lambda: ref.index(x)),
        'count': (lambda: b.count(x), lambda: ref.count(x)),
        'get': (lambda: (b.get(pos), b[pos]), lambda: (ref[pos], ref[pos])),
        'reset': (lambda: b.reset([x, y], **D), lambda: ref.__init__([x, y])),
        # equal but distinguishable elements: a descending sort must be stable like list.sort(reverse=True)
        'sort_rev_mixed': (lambda: (b.extend([1, True, 1.0, 0, False], **D), b.sort(reverse=True, **D))[1], lambda: (ref.extend([1, True, 1.0, 0, False]), ref.sort(reverse=True))[1]),
    }[op]


def _contents(kind, b):
    if kind == 'list':
        return list(b.rawData())
    if kind == 'dict':
        return sorted(b.rawData().items())
    if kind == 'set':
        return sorted(b.rawData())
    if kind == 'counter':
        return [b.get()]
    return list(getattr(b, '_%s__data' % type(b).__name__))


def _dict_op(inp, i, op, b, ref):
    k = inp.choice('k%d' % i, 3) if op not in ('clear', 'len') else 0        # keys are case-split (hashing concretises them anyway)
    k2 = inp.choice('kk%d' % i, 3) if op == 'update' else 0
    v, d = _elt(inp, 'v%d' % i, 4), _elt(inp, 'd%d' % i, 4)
    D = dict(_doApply=True)
    return {
        'set': (lambda: b.set(k, v, **D), lambda: ref.__setitem__(k, v)),
        'setitem': (lambda: b.__setitem__(k, v, **D), lambda: ref.__setitem__(k, v)),
        'setdefault': (lambda: b.setdefault(k, d, **D), lambda: ref.setdefault(k, d)),
        'setdefault_nodefault': (lambda: b.setdefault(k, **D), lambda: ref.setdefault(k)),
        'pop': (lambda: b.pop(k, **D), lambda: ref.pop(k, None)),
        'pop_default': (lambda: b.pop(k, d, **D), lambda: ref.pop(k, d)),
        'update': (lambda: b.update({k: v, k2: d}, **D), lambda: ref.update({k: v, k2: d})),
        'clear': (lambda: b.clear(**D), lambda: ref.clear()),
        'get': (lambda: b.get(k), lambda: ref.get(k)),
        'get_default': (lambda: b.get(k, d), lambda: ref.get(k, d)),
        'getitem': (lambda: b[k], lambda: ref[k]),
        'contains': (lambda: k in b, lambda: k in ref),
        'len': (lambda: (len(b), sorted(b.keys()), sorted(b.items())), lambda: (len(ref), sorted(ref.keys()), sorted(ref.items()))),
        'reset': (lambda: b.reset({k: v}, **D), lambda: (ref.clear(), ref.update({k: v}))[0]),
    }[op]


_POPPED = [None]


def _set_op(inp, i, op, b, ref):
    k = inp.choice('k%d' % i, 3) if op not in ('clear', 'len', 'pop_single', 'pop_any') else 0
    k2 = inp.choice('kk%d' % i, 3) if op in ('update', 'reset') else 0
    D = dict(_doApply=True)
    return {
        'add': (lambda: b.add(k, **D), lambda: ref.add(k)),
        'remove': (lambda: b.remove(k, **D), lambda: ref.remove(k)),
        'discard': (lambda: b.discard(k, **D), lambda: ref.discard(k)),
        'update': (lambda: b.update({k, k2}, **D), lambda: ref.update({k, k2})),
        'clear': (lambda: b.clear(**D), lambda: ref.clear()),
        'contains': (lambda: k in b, lambda: k in ref),
        'len': (lambda: len(b), lambda: len(ref)),
        'reset': (lambda: b.reset({k, k2}, **D), lambda: (ref.clear(), ref.update({k, k2}))[0]),
        # pop of an arbitrary element is only comparable when at most one element is present
        'pop_single': (lambda: b.pop(**D) if len(b) <= 1 else None, lambda: ref.pop() if len(ref) <= 1 else None),
        # any member is a correct answer of set.pop(): the reference removes whichever element the battery returned
        'pop_any': (lambda: _POPPED.__setitem__(0, b.pop(**D)) or _POPPED[0], lambda: (ref.remove(_POPPED[0]), _POPPED[0])[1] if ref else ref.pop()),
    }[op]


def _cnt_op(inp, i, op, b, ref):
    x = inp.int('a%d' % i, -4, 4)
    D = dict(_doApply=True)

    def radd(v):
        ref[0] = ref[0] + v
        return ref[0]

    def rset(v):
        ref[0] = v
        return v
    return {
        'set': (lambda: b.set(x, **D), lambda: rset(x)),
        'add': (lambda: b.add(x, **D), lambda: radd(x)),
        'sub': (lambda: b.sub(x, **D), lambda: radd(-x)),
        'inc': (lambda: b.inc(**D), lambda: radd(1)),
        'get': (lambda: b.get(), lambda: ref[0]),
    }[op]


class _RefQ:
    """queue.Queue semantics on a deque / heap: full() <=> 0 < maxsize <= size"""

    def __init__(self, maxsize, heap):
        self.maxsize, self.heap, self.data = maxsize, heap, []

    def put(self, x):
        if bool(And(self.maxsize > 0, len(self.data) >= self.maxsize)):
            return False
        if self.heap:
            heapq.heappush(self.data, x)
        else:
            self.data.append(x)
        return True

    def get(self, default=None):
        if not self.data:
            return default
        return heapq.heappop(self.data) if self.heap else self.data.pop(0)

    def full(self):
        return bool(And(self.maxsize > 0, len(self.data) >= self.maxsize))


def _q_op(inp, i, op, b, ref):
    x, d = _elt(inp, 'a%d' % i, 3), _elt(inp, 'd%d' % i, 3)
    D = dict(_doApply=True)
    return {
        'put': (lambda: b.put(x, **D), lambda: ref.put(x)),
        'get': (lambda: b.get(**D), lambda: ref.get()),
        'get_default': (lambda: b.get(d, **D), lambda: ref.get(d)),
        'full': (lambda: bool(b.full()), lambda: ref.full()),
        'empty': (lambda: b.empty(), lambda: len(ref.data) == 0),
        'qsize': (lambda: (b.qsize(), len(b)), lambda: (len(ref.data), len(ref.data))),
    }[op]


_KINDS = {
    'list': (lambda inp: (bt.ReplList(), []), LIST_OPS, _list_op, lambda r: list(r)),
    'dict': (lambda inp: (bt.ReplDict(), {}), DICT_OPS, _dict_op, lambda r: sorted(r.items())),
    'set': (lambda inp: (bt.ReplSet(), set()), SET_OPS, _set_op, lambda r: sorted(r)),
    'counter': (lambda inp: (bt.ReplCounter(), [0]), CNT_OPS, _cnt_op, lambda r: list(r)),
}


def _mk_queue(inp, heap):
    ms = inp.int('maxsize', 0, 2)
    return (bt.ReplPriorityQueue(ms) if heap else bt.ReplQueue(ms)), _RefQ(ms, heap)


_KINDS['queue'] = (lambda inp: _mk_queue(inp, False), Q_OPS, _q_op, lambda r: list(r.data))
_KINDS['pqueue'] = (lambda inp: _mk_queue(inp, True), Q_OPS, _q_op, lambda r: sorted(r.data))


def _b1_params(ks, kinds=('list', 'dict', 'set', 'counter', 'queue', 'pqueue')):
    out = []
    for kind in kinds:
        ops = _KINDS[kind][1]
        for k in ks:
            if k == 1:
                out.append(dict(kind=kind, k=1))
            else:
                # one task per first operation keeps tasks small and parallel
                out.extend(dict(kind=kind, k=k, first=f) for f in range(len(ops)))
    return out


@obligation('B1', props=('C15',), quick=_b1_params((1, 2)), thorough=_b1_params((1, 2, 3)), budget=800000,
            stubs=('none: real battery classes called with _doApply=True',),
            bounds='operation sequences of length <=3 over all public methods; elements/keys 0..2, values 0..4, positions -3..3, maxsize 0..2; prefix state = 2 arbitrary appends/puts/sets')
def B1(inp, kind, k, first=None):
    """every public battery method returns the same result / raises the same exception type and leaves the same
    contents as the Python container it mimics, for every operation sequence and symbolic arguments."""
    mk, ops, opf, refc = _KINDS[kind]
    b, ref = mk(inp)
    cl = {}
    trace = []
    # arbitrary small pre-content
    pre = inp.choice('pre', 3)
    for j in range(pre):
        v = _elt(inp, 'pre%d' % j)
        if kind == 'list':
            b.append(v, _doApply=True); ref.append(v)
        elif kind == 'dict':
            kk = inp.choice('prek%d' % j, 3)
            b.set(kk, v, _doApply=True); ref[kk] = v
        elif kind == 'set':
            kk = inp.choice('prek%d' % j, 3)
            b.add(kk, _doApply=True); ref.add(kk)
        elif kind == 'counter':
            b.add(v, _doApply=True); ref[0] = ref[0] + v
        else:
            b.put(v, _doApply=True); ref.put(v)
    for i in range(k):
        oi = first if (i == 0 and first is not None) else inp.choice('op%d' % i, len(ops))
        op = ops[oi]
        bc, rc = opf(inp, i, op, b, ref)
        r = _step(cl, 's%d_%s' % (i, op), bc, rc)
        trace.append((op, show(r[0]), show(r[1]), show(r[2]), show(r[3])))
        cont_b = _contents(kind, b) if kind not in ('pqueue',) else sorted(_contents(kind, b))
        cl['s%d_%s_same_contents' % (i, op)] = _same(cont_b, refc(ref))
        if r[1] is not None or r[3] is not None:
            break
    return Res(cl, nontrivial=True, obs=lambda: dict(kind=kind, trace=trace, contents=show(_contents(kind, b)), ref=show(refc(ref))),
               vars=dict(kind=kind, ops=[t[0] for t in trace]))


@obligation('B2', props=('C15', 'C09', 'C16'), quick=[dict(kind=k) for k in ('list', 'dict', 'set', 'counter', 'queue', 'pqueue', 'lock')],
            stubs=('none',), bounds='source contents of 0..2 symbolic elements (empty and zero included), target battery holding 0..2 stale elements')
def B2(inp, kind):
    """consumer snapshot round trip: _deserialize(_serialize(x)) into a battery that already holds other (stale) contents
    makes it equal to x - also when x is empty / zero; the snapshot never contains the back-pointer to the SyncObj."""
    def fill(z, tag, n):
        for j in range(n):
            v = _elt(inp, '%s%d' % (tag, j))
            if kind == 'list':
                z.append(v, _doApply=True)
            elif kind == 'dict':
                z.set(inp.choice('%sk%d' % (tag, j), 3), v, _doApply=True)
            elif kind == 'set':
                z.add(inp.choice('%sk%d' % (tag, j), 3), _doApply=True)
            elif kind == 'counter':
                z.add(v, _doApply=True)
            elif kind == 'lock':
                z.acquire('l%d' % j, 'c%d' % j, inp.real('%st%d' % (tag, j), 0), _doApply=True)
            else:
                z.put(v, _doApply=True)
    if kind == 'lock':
        b, target = bt._ReplLockManagerImpl(10.0), bt._ReplLockManagerImpl(10.0)
        cont = lambda z: sorted((k, list(v)) for k, v in z._ReplLockManagerImpl__locks.items())
    else:
        mk = _KINDS[kind][0]
        b, _ = mk(inp)
        target, _ = mk(core.ConcreteInput({'maxsize': 0}) if kind in ('queue', 'pqueue') else inp)
        cont = lambda z: [list(x) if isinstance(x, tuple) else x for x in _contents(kind, z)]
    fill(b, 'e', inp.choice('n_src', 3))
    fill(target, 's', inp.choice('n_stale', 3))
    b._syncObj = object()
    data = b._serialize()
    target._deserialize(data)
    cl = {}
    cl['no_backpointer_in_snapshot'] = '_syncObj' not in data and not any('properies' in k for k in data)
    cl['contents_restored'] = _same(cont(target), cont(b))
    cl['target_backpointer_untouched'] = target._syncObj is None
    return Res(cl, nontrivial=True, obs=lambda: dict(kind=kind, keys=sorted(data), src=show(cont(b)), target=show(cont(target))))


# =======================================================================================
# C16 replicated locks

LOCKS = ('l1', 'l2')
CLIENTS = ('c1', 'c2', 'c3')


def _lock_table(inp, impl, now, U, tag='s'):
    """arbitrary table: each lock absent or held by some client since a time <= now"""
    table = {}
    for l in LOCKS:
        h = inp.choice('%s_holder_%s' % (tag, l), len(CLIENTS) + 1)
        if h:
            t = inp.real('%s_time_%s' % (tag, l))
            inp.assume(t <= now)
            table[l] = (CLIENTS[h - 1], t)
    impl._ReplLockManagerImpl__locks = dict(table)
    return table


def _lock_cmd(inp, i, impl, upto, fixed=None):
    """one replicated lock command with an arbitrary timestamp <= upto; returns description"""
    if fixed is None:
        oi, ci, li = inp.choice('op%d' % i, 3), inp.choice('cl%d' % i, len(CLIENTS)), inp.choice('lk%d' % i, len(LOCKS))
    else:
        oi, ci, li = fixed // 6, (fixed // 2) % 3, fixed % 2
    op = ('acquire', 'prolongate', 'release')[oi]
    c = CLIENTS[ci]
    l = LOCKS[li]
    t = inp.real('t%d' % i)
    inp.assume(t <= upto)
    if op == 'acquire':
        r, e = guard(impl.acquire, l, c, t, _doApply=True)
    elif op == 'prolongate':
        r, e = guard(impl.prolongate, c, t, _doApply=True)
    else:
        r, e = guard(impl.release, l, c, _doApply=True)
    if e is not None:
        EXC.append(e)
    return (op, c, l, t, r)


EXC = []


@obligation('K1', props=('C16',), quick=[dict(k=1)] + [dict(k=2, first=f) for f in range(18)],
            thorough=[dict(k=1)] + [dict(k=2, first=f) for f in range(18)] + [dict(k=3, first=f) for f in range(18)],
            stubs=('none: real _ReplLockManagerImpl with _doApply=True; times are unbounded Reals',),
            bounds='2 locks, 3 clients, arbitrary lock table, replica B ahead of replica A by <=3 arbitrary commands, auto-unlock time any positive real, timestamps <= now')
def K1(inp, k, first=None):
    """mutual exclusion across lagging replicas: with replica B ahead of replica A by any <=k commands, no two different
    clients see the same lock as held by themselves at the same instant (clients whose own release is in flight excepted)."""
    U = inp.real('U', 0, lo_strict=True)
    now = inp.real('now')
    A, B = bt._ReplLockManagerImpl(U), bt._ReplLockManagerImpl(U)
    del EXC[:]
    tab = _lock_table(inp, A, now, U)
    B._ReplLockManagerImpl__locks = dict(tab)
    cmdsl = [_lock_cmd(inp, i, B, now, first if i == 0 else None) for i in range(k)]
    # (the commands of one client do NOT reach the log in the order it issued them when leaders change in between: a forwarded
    # command can wait in a candidate's queue and be appended after a later one - timestamps of a client may run backwards)
    cl = {'commands_do_not_raise': len(EXC) == 0}
    for l in LOCKS:
        for a in CLIENTS:
            released = any(op == 'release' and c == a and ll == l for op, c, ll, _, _ in cmdsl)
            if released:
                continue
            for b in CLIENTS:
                if a == b:
                    continue
                cl['excl_%s_%s_%s' % (l, a, b)] = Not(And(A.isAcquired(l, a, now), B.isAcquired(l, b, now)))
    held = Or([B.isAcquired(l, c, now) for l in LOCKS for c in CLIENTS])
    return Res(cl, nontrivial=held, obs=lambda: dict(table=show(tab), cmds=show(cmdsl), B=show(B._ReplLockManagerImpl__locks)))


@obligation('K3', props=('C16',), quick=[dict()],
            stubs=('none',), bounds='2 locks, 3 clients, arbitrary table and timestamps (unbounded Reals)')
def K3(inp):
    """single-command semantics: acquire succeeds iff the lock is free, expired (t - lockTime > U) or already the caller's;
    an expired holder can always be replaced; release by a non-holder changes nothing; prolongate touches only the caller's
    and expired locks; isAcquired is true only for the recorded holder within the auto-unlock time."""
    U = inp.real('U', 0, lo_strict=True)
    now = inp.real('now')
    A = bt._ReplLockManagerImpl(U)
    del EXC[:]
    tab = _lock_table(inp, A, now, U)
    op, c, l, t, r = _lock_cmd(inp, 0, A, now + 1000)
    post = A._ReplLockManagerImpl__locks
    cl = {'command_does_not_raise': len(EXC) == 0}
    if EXC:
        return Res(cl, nontrivial=True, obs=lambda: dict(op=op, client=c, lock=l, exc=show(EXC[0]), table=show(tab)))
    old = tab.get(l)
    if op == 'acquire':
        free = old is None or bool(Or(t - old[1] > U, old[0] == c)) if old is not None else True
        cl['acquire_result'] = (r is True) == bool(free)
        # a lease never moves backwards: the holder's own (possibly overtaken) command keeps the later of the two instants
        keep_old = old is not None and old[0] == c and not bool(t - old[1] > U)
        new_t = core.Max(old[1], t) if keep_old else t
        cl['acquire_effect'] = (post.get(l) is not None and post[l][0] == c and bool(Eq(post[l][1], new_t))) if r else _same_tab(post, tab)
        cl['other_locks_untouched'] = all(_entry_eq(post.get(x), tab.get(x)) for x in LOCKS if x != l)
    elif op == 'release':
        if old is not None and old[0] == c:
            cl['release_by_holder_frees'] = l not in post
        else:
            cl['release_by_non_holder_no_effect'] = _same_tab(post, tab)
        cl['other_locks_untouched'] = all(_entry_eq(post.get(x), tab.get(x)) for x in LOCKS if x != l)
    else:
        for x in LOCKS:
            o = tab.get(x)
            if o is None:
                cl['prolong_%s_stays_free' % x] = x not in post
            else:
                expired = t - o[1] > U
                mine = o[0] == c
                if x not in post:
                    cl['prolong_%s_deleted_only_if_expired' % x] = expired
                else:
                    cl['prolong_%s_kept' % x] = And(Not(expired), post[x][0] == o[0], Eq(post[x][1], Ite(mine, core.Max(t, o[1]), o[1])))
    for x in LOCKS:
        for cc in CLIENTS:
            e = post.get(x)
            cl['isacq_%s_%s' % (x, cc)] = Iff(A.isAcquired(x, cc, now + 1000), And(e is not None and e[0] == cc, (now + 1000 - e[1] < U) if e is not None else False))
    return Res(cl, nontrivial=True, obs=lambda: dict(op=op, client=c, lock=l, result=show(r), table=show(tab), post=show(post)))


def _entry_eq(a, b):
    if a is None or b is None:
        return a is None and b is None
    return a[0] == b[0] and bool(Eq(a[1], b[1]))


def _same_tab(a, b):
    return sorted(a) == sorted(b) and all(_entry_eq(a[k], b[k]) for k in a)


class _FakeTime:
    def __init__(self, instants):
        self.instants, self.i = instants, 0

    def time(self):
        v = self.instants[min(self.i, len(self.instants) - 1)]
        self.i += 1
        return v

    sleep = staticmethod(lambda s: None)


class _FakeImpl:
    """stands for the replicated lock table behind ReplLockManager: records calls, answers as told"""

    def __init__(self, answer, err=0, inp=None):
        self.answer, self.err, self.calls, self.cb = answer, err, [], None
        self.inp, self.held = inp, None     # inp given: what the local replica shows is a symbolic flag, drawn when first asked (S-C16-9)

    def acquire(self, lockID, clientID, t, callback=None, sync=False, timeout=None):
        self.calls.append(('acquire', lockID, clientID, t, sync))
        if sync:
            return self.answer
        self.cb = callback

    def release(self, lockID, clientID, callback=None, sync=False, timeout=None):
        self.calls.append(('release', lockID, clientID, sync))

    def isAcquired(self, lockID, clientID, t):
        self.calls.append(('isAcquired', lockID, clientID, t))
        if self.inp is None:
            return False
        if self.held is None:
            self.held = self.inp.flag('locally_held')
        return self.held


@obligation('K2', props=('C16',), quick=[dict(mode='sync'), dict(mode='async')],
            stubs=('batteries.time=FakeTime (non-decreasing symbolic instants)', 'lock table behind ReplLockManager=_FakeImpl answering a symbolic result; manager built with object.__new__ (no thread)'),
            bounds='attempt/acquire instants and auto-unlock time unbounded Reals; the local replica shows the lock as already held by the caller or not (symbolic, whenever the code asks)')
def K2(inp, mode):
    """late acquisition: tryAcquire reports True only if the acquisition took at most half the auto-unlock time; a late
    success is reported as failure and a release for exactly that lock and client is issued."""
    U = inp.real('U', 0, lo_strict=True)
    t0 = inp.real('t_attempt')
    t1 = inp.real('t_acquired')
    inp.assume(t1 >= t0)
    answer = inp.flag('granted')
    real_time = bt.time
    bt.time = _FakeTime([t0, t1])
    try:
        m = object.__new__(bt.ReplLockManager)
        impl = _FakeImpl(answer, inp=inp)
        m._ReplLockManager__lockImpl = impl
        m._ReplLockManager__selfID = 'me'
        m._ReplLockManager__autoUnlockTime = U
        got = []
        if mode == 'sync':
            res, exc = guard(m.tryAcquire, 'L', sync=True)
        else:
            _, exc = guard(m.tryAcquire, 'L', callback=lambda r, e: got.append((r, e)))
            if exc is None and impl.cb is not None:
                _, exc = guard(impl.cb, answer, 0)
            res = got[0][0] if got else None
    finally:
        bt.time = real_time
    late = t1 - t0 > U / 2
    rel = [c for c in impl.calls if c[0] == 'release']
    acq = [c for c in impl.calls if c[0] == 'acquire']
    cl = {'no_exception': exc is None}
    cl['one_acquire_with_attempt_time'] = len(acq) == 1 and acq[0][1] == 'L' and acq[0][2] == 'me' and bool(Eq(acq[0][3], t0))
    cl['reports_true_iff_granted_in_time'] = Iff(bool(res) if res is not None else False, And(answer, Not(late)))
    cl['late_success_is_released'] = Iff(len(rel) == 1, And(answer, late)) if len(rel) <= 1 else False
    cl['release_names_lock_and_client'] = all(c[1] == 'L' and c[2] == 'me' for c in rel)
    if mode == 'async':
        cl['callback_once'] = len(got) == 1
    return Res(cl, nontrivial=And(answer, late), obs=lambda: dict(mode=mode, answer=answer, res=show(res), calls=show(impl.calls), exc=show(exc)))


@obligation('K2b', props=('C16',), quick=[dict()],
            stubs=('batteries.time=FakeTime (non-decreasing symbolic instants)', 'lock table behind ReplLockManager=_FakeImpl; manager built with object.__new__ (no thread)'),
            bounds='two overlapping asynchronous tryAcquire calls of one manager on two locks; four symbolic instants')
def K2b(inp):
    """overlapping acquisitions of one client: each callback reports True only if *its own* acquisition took at most half
    the auto-unlock time (attempt times are per call), and a late success releases exactly its own lock."""
    U = inp.real('U', 0, lo_strict=True)
    ta1, ta2, tc1, tc2 = (inp.real(n) for n in ('t_attempt1', 't_attempt2', 't_done1', 't_done2'))
    inp.assume(And(ta2 >= ta1, tc1 >= ta2, tc2 >= tc1))
    g1, g2 = inp.flag('granted1'), inp.flag('granted2')
    real_time = bt.time
    clk = _FakeTime([ta1])
    bt.time = clk
    got1, got2 = [], []
    try:
        m = object.__new__(bt.ReplLockManager)
        impl = _FakeImpl(True)
        m._ReplLockManager__lockImpl = impl
        m._ReplLockManager__selfID = 'me'
        m._ReplLockManager__autoUnlockTime = U
        _, exc = guard(m.tryAcquire, 'L1', callback=lambda r, e: got1.append((r, e)))
        cb1 = impl.cb
        clk.instants, clk.i = [ta2], 0
        if exc is None:
            _, exc = guard(m.tryAcquire, 'L2', callback=lambda r, e: got2.append((r, e)))
        cb2 = impl.cb
        clk.instants, clk.i = [tc1], 0
        if exc is None:
            _, exc = guard(cb1, g1, 0)
        clk.instants, clk.i = [tc2], 0
        if exc is None:
            _, exc = guard(cb2, g2, 0)
    finally:
        bt.time = real_time
    rel = [c for c in impl.calls if c[0] == 'release']
    late1, late2 = tc1 - ta1 > U / 2, tc2 - ta2 > U / 2
    cl = {'no_exception': exc is None}
    cl['callbacks_once_each'] = len(got1) == 1 and len(got2) == 1
    if len(got1) == 1 and len(got2) == 1:
        cl['first_reports_own_timing'] = Iff(bool(got1[0][0]), And(g1, Not(late1)))
        cl['second_reports_own_timing'] = Iff(bool(got2[0][0]), And(g2, Not(late2)))
    cl['late_successes_released'] = And(Iff(any(c[1] == 'L1' for c in rel), And(g1, late1)), Iff(any(c[1] == 'L2' for c in rel), And(g2, late2)))
    return Res(cl, nontrivial=Or(And(g1, late1), And(g2, late2)), obs=lambda: dict(got1=show(got1), got2=show(got2), calls=show(impl.calls), exc=show(exc)))


@obligation('B3', props=('C15',), quick=[dict(k=6, mid=m) for m in range(7)], thorough=[dict(k=7, mid=m) for m in range(8)], stubs=('none',),
            bounds='k<=7 puts of symbolic priorities 0..9 (every relative order), optionally a get in the middle, then drain')
def B3(inp, k, mid):
    """priority queue over longer histories: after any k puts (and a get in between) draining returns the items in
    non-decreasing order and exactly the multiset that was put (what a heap gives)."""
    q = bt.ReplPriorityQueue()
    xs = [inp.int('v%d' % i, 0, 9) for i in range(k)]
    # mid = after how many puts one get happens (k = no get in the middle)
    got = []
    for i, x in enumerate(xs):
        q.put(x, _doApply=True)
        if i + 1 == mid:
            got.append(q.get(_doApply=True))
    out = []
    while not q.empty():
        out.append(q.get(_doApply=True))
        if len(out) > k + 1:
            break
    allout = got + out
    cl = {}
    cl['drain_sorted'] = And([out[i] <= out[i + 1] for i in range(len(out) - 1)] or [True])
    cl['middle_get_is_minimum_so_far'] = And([got[0] <= x for x in xs[:mid]]) if got else True
    cl['same_multiset'] = And([Eq(Count([Eq(x, v) for x in xs]), Count([Eq(y, v) for y in allout])) for v in range(10)]) if len(allout) == k else False
    return Res(cl, nontrivial=True, obs=lambda: dict(puts=show(xs), mid=mid, out=show(allout)))


_B4_POOL = (0, 1, 8, 9, 16, 64, 'a', 'zz', (1, 2), frozenset({1}), frozenset({2}), frozenset({3}), frozenset({9}), frozenset({2, 3}),
            frozenset([32, 3, 11]), frozenset([32, 2]), 1 + 2j, 3 + 4j)     # complex: hashable, same type, no '<' at all (S-C12-7). frozensets: '<' is only a partial order; the last two list their members in another order after a pickle round trip (repr differs)


@obligation('B4', props=('C15', 'C01', 'C09'), quick=[dict(k=2), dict(k=3)], thorough=[dict(k=2), dict(k=3), dict(k=4)], stubs=('none',),
            bounds='sets of k<=3 (thorough: 4) elements from a pool of small ints (colliding in an 8-slot table), strings and a tuple; one replica built through a long history (200 adds, discards), '
                   'one restored from a snapshot (the consumer\'s own _serialize/_deserialize through the real pickle), one built directly')
def B4(inp, k):
    """ReplSet.pop on replicas with equal contents but different histories: the element removed is the same everywhere (the
    choice must depend on the contents, not on the layout of the hash table, which is not part of the replicated state), it was a
    member, and the replicas stay equal - also for the next pop."""
    import pysyncobj.pickle as real_pickle
    idx = []
    for i in range(k):
        j = inp.choice('e%d' % i, len(_B4_POOL))
        idx.append(j)
    elems = set(_B4_POOL[j] for j in idx)
    hist = bt.ReplSet()
    universe = list(range(200)) + ['a', 'zz', 'q', (1, 2), (3, 4), frozenset({1}), frozenset({2}), frozenset({3}), frozenset({9}), frozenset({2, 3}), frozenset({7}), frozenset([32, 3, 11]), frozenset([32, 2]), 1 + 2j, 3 + 4j, 5j]
    for x in universe:
        hist.add(x, _doApply=True)
    for x in universe:
        if x not in elems:
            hist.discard(x, _doApply=True)
    direct = bt.ReplSet()
    for x in sorted(elems, key=repr, reverse=True):
        direct.add(x, _doApply=True)
    snap = bt.ReplSet()
    snap._deserialize(real_pickle.loads(real_pickle.dumps(hist._serialize())))
    reps = (hist, direct, snap)
    cl = {'replicas_equal_before': all(set(r.rawData()) == elems for r in reps)}
    for rnd in range(2):
        if not elems:
            break
        outs = []
        for r in reps:
            v, e = None, None
            try:
                v = r.pop(_doApply=True)
            except Exception as ex:
                e = ex
            outs.append((v, type(e).__name__ if e else None))
        cl['pop%d_no_exception' % rnd] = all(o[1] is None for o in outs)
        cl['pop%d_same_element_on_every_replica' % rnd] = all(o == outs[0] and type(o[0]) is type(outs[0][0]) for o in outs)
        cl['pop%d_was_a_member' % rnd] = outs[0][0] in elems
        elems.discard(outs[0][0])
        cl['pop%d_replicas_equal_after' % rnd] = all(set(r.rawData()) == elems for r in reps)
    return Res(cl, nontrivial=True, obs=lambda: dict(idx=idx, left=sorted(map(repr, elems))))


@obligation('K4', props=('C16',), quick=[dict()], stubs=('lock table behind the manager: real _ReplLockManagerImpl whose replicated release/acquire are recorded instead of submitted',),
            bounds='local table shows the lock as held by the caller, by someone else, or not at all (the caller\'s own acquire may still be in flight)')
def K4(inp):
    """release() always issues the replicated release for exactly that lock and client - also when the local replica does not
    (yet) show the caller as holder - so a lock whose acquisition was still in flight cannot stay held for ever."""
    m = object.__new__(bt.ReplLockManager)
    impl = bt._ReplLockManagerImpl(10.0)
    view = inp.choice('local_view', 3)
    if view == 1:
        impl._ReplLockManagerImpl__locks['L'] = ('me', inp.real('t0'))
    elif view == 2:
        impl._ReplLockManagerImpl__locks['L'] = ('other', inp.real('t0'))
    calls = []
    impl.release = lambda lockID, clientID, callback=None, sync=False, timeout=None: calls.append((lockID, clientID, sync))
    m._ReplLockManager__lockImpl = impl
    m._ReplLockManager__selfID = 'me'
    m._ReplLockManager__autoUnlockTime = 10.0
    got = []
    _, exc = guard(m.release, 'L', callback=lambda r, e: got.append((r, e)))
    cl = {'no_exception': exc is None}
    cl['replicated_release_issued_once'] = calls == [('L', 'me', False)]
    cl['no_local_shortcut_answer'] = got == []
    return Res(cl, nontrivial=view != 1, obs=lambda: dict(view=view, calls=calls, got=show(got), exc=show(exc)))


class _TableAdapter:
    """the replicated lock table as the manager sees it: commands are committed (executed on the real _ReplLockManagerImpl)
    at once, except that a release may be lost on its way (no callback, no retry: a forwarded command without callback is simply
    gone when its connection drops)"""

    def __init__(self, impl, release_lost):
        self.impl, self.release_lost, self.released = impl, release_lost, []

    open_outcome = False

    def acquire(self, lockID, clientID, t, callback=None, sync=False, timeout=None):
        if self.open_outcome:
            # the leader fell after it had stored the command: the submitter is told LEADER_CHANGED (outcome open), the command
            # commits under the next leader all the same
            callback(None, 5)
            self.impl.acquire(lockID, clientID, t, _doApply=True)
            return
        res = self.impl.acquire(lockID, clientID, t, _doApply=True)
        if sync:
            return res
        callback(res, 0)

    def release(self, lockID, clientID, callback=None, sync=False, timeout=None):
        self.released.append((lockID, clientID, callback is not None))
        if not self.release_lost:
            self.impl.release(lockID, clientID, _doApply=True)

    def prolongate(self, clientID, t, **kw):
        self.impl.prolongate(clientID, t, _doApply=True)

    def isAcquired(self, lockID, clientID, t):
        return self.impl.isAcquired(lockID, clientID, t)


@obligation('K5', props=('C16',), quick=[dict(mode='async'), dict(mode='sync'), dict(mode='open_outcome')],
            stubs=('batteries.time=FakeTime (symbolic instants)', 'manager built with object.__new__ (no thread); its prolongation rounds are performed by the harness exactly as the thread body does', 'commands are committed at once on the real _ReplLockManagerImpl; the undo-release may be lost'),
            bounds='auto-unlock time U, attempt and commit instants symbolic Reals with U/2 < delay <= U; 6 prolongation rounds U/4 apart afterwards; the undo-release arrives or is lost')
def K5(inp, mode):
    """a client whose acquisition took longer than half the auto-unlock time is told it failed and does not keep the lock: after
    that answer - whatever happens to the release the manager sends - the client's own prolongation does not keep the entry alive
    for ever; once the auto-unlock time has passed another client obtains the lock."""
    U = inp.real('U', 0, lo_strict=True)
    t0 = inp.real('t_attempt', 0)
    t1 = inp.real('t_committed', 0)
    inp.assume(And(t1 - t0 > U / 2, t1 - t0 <= U) if mode != 'open_outcome' else t1 >= t0)
    lost = inp.flag('release_lost') if mode != 'open_outcome' else False
    impl = bt._ReplLockManagerImpl(U)
    tab = _TableAdapter(impl, lost)
    tab.open_outcome = mode == 'open_outcome'
    real_time = bt.time
    bt.time = _FakeTime([t0, t1])
    got = []
    try:
        m = object.__new__(bt.ReplLockManager)
        m._ReplLockManager__lockImpl = tab
        m._ReplLockManager__selfID = 'X'
        m._ReplLockManager__autoUnlockTime = U
        if mode == 'sync':
            res, exc = guard(m.tryAcquire, 'L', sync=True)
        else:
            _, exc = guard(m.tryAcquire, 'L', callback=lambda r, e: got.append((r, e)))
            res = got[0][0] if got else None
        # the manager's thread: every U/4 it prolongs whatever the table holds under its client id
        t = t1
        for k in range(6):
            t = t + U / 4
            if exc is None:
                _, exc = guard(tab.prolongate, 'X', t)
        t_end = t
        still = impl.isAcquired('L', 'X', t_end)
        y_gets = impl.acquire('L', 'Y', t_end, _doApply=True)
    finally:
        bt.time = real_time
    cl = {'no_exception': exc is None}
    cl['told_it_failed'] = res is not True
    if mode != 'open_outcome':
        cl['undo_release_sent'] = len(tab.released) == 1
    cl['does_not_keep_the_lock'] = Not(still)
    cl['obtainable_by_others_after_auto_unlock_time'] = y_gets
    return Res(cl, nontrivial=True, obs=lambda: dict(mode=mode, lost=lost, res=show(res), still=show(still), y=show(y_gets), released=tab.released, exc=show(exc)),
               vars=dict(release_lost=1 if lost else 0, open_outcome=1 if mode == 'open_outcome' else 0))
