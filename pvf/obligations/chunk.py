"""C11: argument packing (A1), size batching (A2) and chunked transfer of big entries (A3/A4) through the
real __sendAppendEntries and the real follower handler, with command sizes as solver variables."""
import z3

from pvf.core import And, Or, Not, Implies, Iff, Eq, Ite, SymInt
from pvf.registry import obligation, Res
from pvf import so, core, cmds
from pvf.blob import Blob, S, symlen, symrange, symord
from pvf.so import F, C, L, get, put, guard, show, Node
import pysyncobj.syncobj as so_mod
import pysyncobj.pickle as real_pickle
from pysyncobj.syncobj import SyncObj, replicated, _bchr

_STUBS = ('transport=RecTransport', 'monotonicTime=Clock', 'pysyncobj.syncobj.len/xrange/ord shadowed for symbolic sizes',
          'pickle.dumps(entry) = blob of length len(command)+h with a free overhead h in 1..64 (the real overhead is content dependent); loads inverts exactly that blob, anything else raises')


class EntryPickle:
    """pickle stub for entries whose command is a symbolic-size blob"""

    def __init__(self, inp):
        self.inp, self.objs, self.n = inp, {}, 0

    def dumps(self, obj, protocol=None):
        if isinstance(obj, tuple) and len(obj) == 3 and isinstance(obj[0], Blob):
            self.n += 1
            o = ('entry', self.n)
            h = self.inp.int('h%d' % self.n, 1, 64)
            self.objs[o] = (obj, symlen(obj[0]) + h)
            return Blob.fresh(o, symlen(obj[0]) + h)
        return real_pickle.dumps(obj)

    def loads(self, data):
        if isinstance(data, Blob):
            s_ = data.sole_origin()
            if s_ is not None and s_[0] in self.objs and bool(s_[1] == 0) and bool(s_[2] == self.objs[s_[0]][1]):
                return self.objs[s_[0]][0]
            raise real_pickle.pickle.UnpicklingError('truncated / concatenated pickle: %r' % data)
        return real_pickle.loads(data)

    to_bytes = staticmethod(lambda d: d)


_REAL = {k: getattr(so_mod, k) for k in ('pickle', 'xrange')}


def _install(inp):
    ep = EntryPickle(inp)
    so_mod.pickle = ep
    so_mod.len, so_mod.xrange, so_mod.ord = symlen, symrange, symord
    return ep


def _command(tag, n):
    return Blob.lit(_bchr(0)) + Blob.fresh(('args', tag), n - 1)


def _pair(inp, B):
    now = inp.real('now', 0)
    clock = so.Clock(now)
    lead, ltr = so.make('a', ['b'], clock, inp)
    fol, ftr = so.make('b', ['a'], clock, inp)
    lead.conf.appendEntriesBatchSizeBytes = B
    return lead, ltr, fol, ftr, now


@obligation('A3', props=('C11', 'C01', 'C05'), quick=[dict(chunks=4)], thorough=[dict(chunks=8)], stubs=_STUBS,
            bounds='one command of any length n>=batch size B (B any positive int), pickled length n+h with h in 1..64, n+64 <= chunks*B with chunks = 4 (quick) / 8 (thorough); sizes k*B-64..k*B+64 are ordinary values of n')
def A3(inp, chunks):
    """a command at least as long as the batch size is sent as start, process*, finish chunks that concatenate to the pickled
    entry (exactly one finish, on the last chunk); the real follower handler then appends exactly that entry once, acknowledges
    it once with success, and raises nothing."""
    ep = _install(inp)
    B = inp.int('B', 1, 70000)
    n = inp.int('n', 1, 8 * 70000 + 64)
    lead, ltr, fol, ftr, now = _pair(inp, B)
    inp.assume(And(n >= B, n + 64 <= chunks * B))       # at most `chunks` chunks whatever the pickle overhead
    term = 1
    cmd = _command(1, n)
    so.set_log(lead, [(so.NOOP, 1, 0), (cmd, 2, term)])
    put(lead, 'raftCurrentTerm', term); put(lead, 'raftState', L); put(lead, 'raftLeader', Node('a'))
    b = Node('b')
    get(lead, 'connectedNodes').add(b)
    get(lead, 'raftNextIndex')[b] = 2
    get(lead, 'raftMatchIndex')[b] = 0
    get(lead, 'lastResponseTime')[b] = now
    # sending takes time: each message may cost more than half the send round's budget (appendEntriesPeriod); the pieces of one
    # entry still go out together, otherwise an entry with many pieces never arrives
    slow = inp.flag('slow_link')
    if slow:
        clk, real_send, period = so_mod.monotonicTime, ltr.send, lead.conf.appendEntriesPeriod

        def costly_send(node, message):
            clk.now = clk.now + period * 0.6
            return real_send(node, message)
        ltr.send = costly_send
    _, exc = guard(getattr(lead, so.P + 'sendAppendEntries'))
    if slow:
        ltr.send = real_send
    msgs = [m for nd, m in ltr.sent if nd == b]
    tags = [m.get('transmission') for m in msgs]
    cl = {'send_no_exception': exc is None}
    if exc is not None:
        return Res(cl, obs=lambda: dict(exc=show(exc)))
    # bound on the number of chunks: outside it the path is not part of the claim
    total = ep.objs[('entry', 1)][1] if ep.objs else None
    inp.assume(len(msgs) <= chunks)
    cl['all_chunked'] = all(t is not None for t in tags) and len(msgs) >= 1
    cl['tags_start_process_finish'] = len(tags) >= 2 and tags[0] == 'start' and tags[-1] == 'finish' and all(t == 'process' for t in tags[1:-1]) \
        if len(tags) >= 2 else False
    whole = Blob()
    for m in msgs:
        whole = whole + m['data']
    cl['chunks_concatenate_to_pickled_entry'] = bool(whole.whole(('entry', 1), total)) if total is not None else False
    cl['chunk_fields'] = And([And(Eq(m['prevLogIdx'], 1), Eq(m['prevLogTerm'], 0), Eq(m['term'], term)) for m in msgs] or [True])
    cl['next_index_advanced'] = bool(Eq(get(lead, 'raftNextIndex')[b], 3))
    # follower side
    so.set_log(fol, [(so.NOOP, 1, 0)])
    exc2 = None
    # an earlier attempt of the same transfer was cut after `lost` chunks (link drop): the leader starts over
    lost = inp.choice('interrupted_after', len(msgs))
    for m in msgs[:lost]:
        _, exc2 = guard(getattr(fol, so.P + 'onMessageReceived'), Node('a'), m)
        if exc2 is not None:
            break
    del ftr.sent[:]
    for m in msgs:
        if exc2 is not None:
            break
        _, exc2 = guard(getattr(fol, so.P + 'onMessageReceived'), Node('a'), m)
        if exc2 is not None:
            break
    cl['receive_no_exception'] = exc2 is None
    flog = so.log_of(fol)
    acks = [m for nd, m in ftr.sent if m['type'] == 'next_node_idx']
    ok_acks = [m for m in acks if m['success'] is True]
    cl['entry_appended_exactly_once'] = len(flog) == 2 and bool(Blob.coerce(flog[1][0]).same(cmd)) and bool(Eq(flog[1][1], 2)) and bool(Eq(flog[1][2], term))
    cl['one_success_ack_at_the_end'] = len(ok_acks) == 1 and acks[-1] is ok_acks[0] and bool(Eq(ok_acks[0]['next_node_idx'], 3))
    cl['buffer_reset'] = not get(fol, 'recvTransmission')
    # lifecycle: the node is deposed, its entry at that index is overwritten by another big entry, it is re-elected and sends again
    n2 = inp.int('n2', 1, 8 * 70000 + 64)
    inp.assume(And(n2 >= B, n2 + 64 <= chunks * B))
    cmd2 = _command(2, n2)
    so.set_log(lead, [(so.NOOP, 1, 0), (cmd2, 2, term + 1)])
    put(lead, 'raftCurrentTerm', term + 2)
    get(lead, 'raftNextIndex')[b] = 2
    del ltr.sent[:]
    _, exc3 = guard(getattr(lead, so.P + 'sendAppendEntries'))
    msgs2 = [m for nd, m in ltr.sent if nd == b and m.get('transmission') is not None]
    whole2 = Blob()
    for m in msgs2:
        whole2 = whole2 + m['data']
    so2 = whole2.sole_origin()
    cl['resend_carries_the_current_entry'] = exc3 is None and so2 is not None and so2[0] in ep.objs and ep.objs[so2[0]][0][0] is cmd2 and bool(Eq(ep.objs[so2[0]][0][2], term + 1))
    # leftovers: pieces of a transfer that was restarted reach the receiver late (they were still on a connection that has been
    # replaced meanwhile).  (a) pieces without their beginning, (b) the beginning of the new transfer followed by the old pieces:
    # the glued bytes are no entry.  Nothing may escape the handler, nothing but a complete entry may be appended.
    recv = getattr(fol, so.P + 'onMessageReceived')
    exc4 = None
    log_before = len(so.log_of(fol))
    for m in msgs[1:]:
        if exc4 is None:
            _, exc4 = guard(recv, Node('a'), dict(m))
    cl['pieces_without_a_beginning_ignored'] = exc4 is None and len(so.log_of(fol)) == log_before
    if exc4 is None and msgs2:
        put(fol, 'raftCurrentTerm', term + 2)
        for m in [msgs2[0]] + msgs[1:] + msgs2[1:]:
            if exc4 is None:
                _, exc4 = guard(recv, Node('a'), dict(m))
        flog2 = so.log_of(fol)
        cl['glued_pieces_raise_nothing'] = exc4 is None
        cl['glued_pieces_append_no_entry'] = len(flog2) == log_before
    return Res(cl, nontrivial=True, obs=lambda: dict(tags=tags, sizes=[show(symlen(m['data'])) for m in msgs], exc=show(exc), exc2=show(exc2), exc4=show(exc4),
                                                     follower_log_len=len(flog)),
               vars=dict(n=n, B=B))


@obligation('A2', props=('C11', 'C05', 'C01'), quick=[dict(n=2), dict(n=3)], thorough=[dict(n=2), dict(n=3), dict(n=4)], stubs=_STUBS,
            bounds='n<=4 commands, each smaller than B or chunked into <=4 chunks (size+64 <= 4B), batch size B any positive int, any nextIndex; big entries chunked (<=4 chunks each)')
def A2(inp, n):
    """batching by size: the messages one __sendAppendEntries call sends to a follower carry exactly the entries
    nextIndex..lastIdx, in order, without gaps or overlaps (a big entry as one chunk group), each with the correct
    prevLogIdx/prevLogTerm; when nothing is pending exactly one empty heartbeat is sent."""
    ep = _install(inp)
    B = inp.int('B', 1, 70000)
    lead, ltr, fol, ftr, now = _pair(inp, B)
    term = 2
    sizes = [inp.int('s%d' % i, 1, 3 * 70000 + 64) for i in range(n)]
    for s_ in sizes:
        inp.assume(Or(s_ < B, s_ + 64 <= 4 * B))          # unchunked, or at most 4 chunks whatever the pickle overhead
    terms = [inp.int('t%d' % i, 0, 2) for i in range(n)]
    for i in range(n - 1):
        inp.assume(terms[i] <= terms[i + 1])
    log = [(so.NOOP, 1, 0)] + [(_command(i, sizes[i]), 2 + i, terms[i]) for i in range(n)]
    so.set_log(lead, log)
    put(lead, 'raftCurrentTerm', term); put(lead, 'raftState', L); put(lead, 'raftLeader', Node('a'))
    b = Node('b')
    get(lead, 'connectedNodes').add(b)
    nxt = inp.int('next', 2, n + 2)
    get(lead, 'raftNextIndex')[b] = nxt
    get(lead, 'raftMatchIndex')[b] = 0
    get(lead, 'lastResponseTime')[b] = now
    _, exc = guard(getattr(lead, so.P + 'sendAppendEntries'))
    msgs = [m for nd, m in ltr.sent if nd == b]
    cl = {'send_no_exception': exc is None}
    if exc is not None:
        return Res(cl, obs=lambda: dict(exc=show(exc)))
    inp.assume(len(msgs) <= 4 * n + 1)
    covered = []      # entry indices in sending order
    ok_prev = True
    i = 0
    groups = []
    while i < len(msgs):
        m = msgs[i]
        if m.get('transmission') is not None:
            j = i
            while j < len(msgs) and msgs[j].get('transmission') != 'finish':
                j += 1
            grp = msgs[i:j + 1]
            groups.append(('chunked', len(grp)))
            covered.append(m['prevLogIdx'] + 1)
            first = m['prevLogIdx'] + 1
            i = j + 1
        else:
            groups.append(('batch', len(m['entries'])))
            covered.extend(e[1] for e in m['entries'])
            first = m['prevLogIdx'] + 1
            if m['entries']:
                ok_prev = And(ok_prev, Eq(m['entries'][0][1], first))
            i += 1
        ok_prev = And(ok_prev, Eq(m['prevLogTerm'], so.term_at(log, first - 1)))
    last = n + 1
    want = [nxt + d for d in range(len(covered))]
    cl['covers_next_to_last_in_order'] = And([Eq(c, w) for c, w in zip(covered, want)] + [Eq(nxt + len(covered), last + 1)])
    cl['prev_fields_correct'] = ok_prev
    cl['heartbeat_iff_nothing_pending'] = Implies(nxt > last, len(msgs) == 1 and msgs[0].get('entries') == [])
    cl['next_index_at_end'] = Eq(get(lead, 'raftNextIndex')[b], last + 1)
    cl['batches_respect_size'] = True
    return Res(cl, nontrivial=nxt <= last, obs=lambda: dict(groups=groups, covered=show(covered), next=show(nxt), exc=show(exc)))


# ---------------------------------------------------------------------------------------
class Packed(SyncObj):
    def __init__(self, *a, **kw):
        super(Packed, self).__init__(*a, **kw)
        self.calls = []

    @replicated
    def op(self, *args, **kwargs):
        self.calls.append((args, dict(kwargs)))
        return len(args)


@obligation('A1', props=('C11', 'C02', 'C15', 'C12'), quick=[dict()], stubs=('_applyCommand replaced on the instance to capture the packed command', 'FakePickle keeps symbolic arguments symbolic'),
            bounds='0..2 positional and 0..2 keyword arguments (symbolic ints), each of the control keywords callback/sync/timeout present or absent')
def A1(inp):
    """argument packing: whatever mix of positional/keyword arguments and control keywords (callback, sync, timeout) a
    replicated method is called with, applying the packed command calls the method exactly once with exactly the user's
    arguments - control keywords never reach it."""
    now = inp.real('now', 0)
    o, tr = so.make('a', ['b'], so.Clock(now), inp, cls=Packed)
    cmds.install(inp)
    npos, nkw = inp.choice('npos', 3), inp.choice('nkw', 3)
    args = [inp.int('a%d' % i, -5, 5) for i in range(npos)]
    kwargs = {'k%d' % i: inp.int('kw%d' % i, -5, 5) for i in range(nkw)}
    ctl = {}
    cb_calls = []
    if inp.flag('has_callback'):
        ctl['callback'] = lambda r, e: cb_calls.append((r, e))
    if inp.flag('has_sync'):
        ctl['sync'] = False
    if inp.flag('has_timeout'):
        ctl['timeout'] = 1.0
    seen = []
    o._applyCommand = lambda command, callback, commandType=None: seen.append((command, callback, commandType))
    call_kwargs = dict(kwargs)
    call_kwargs.update(ctl)
    _, exc = guard(o.op, *args, **call_kwargs)
    cl = {'submit_no_exception': exc is None, 'submitted_once': len(seen) == 1}
    if exc is None and len(seen) == 1:
        command, callback, ctype = seen[0]
        cl['callback_passed_through'] = (callback is ctl.get('callback'))
        full = (cmds.Cmd(ctype, so_mod.pickle.loads(command)) if isinstance(command, cmds.Payload) else _bchr(ctype) + command)
        _, exc2 = guard(getattr(o, so.P + 'doApplyCommand'), full)
        cl['apply_no_exception'] = exc2 is None
        cl['called_once_with_user_arguments'] = len(o.calls) == 1 and len(o.calls[0][0]) == npos and \
            And([Eq(x, y) for x, y in zip(o.calls[0][0], args)] or [True]) is not False and \
            sorted(o.calls[0][1]) == sorted(kwargs) and bool(And([Eq(o.calls[0][1][k], v) for k, v in kwargs.items()] or [True]))
        if len(o.calls) == 1:
            cl['positional_values'] = And([Eq(x, y) for x, y in zip(o.calls[0][0], args)] or [True])
    return Res(cl, nontrivial=True, obs=lambda: dict(npos=npos, nkw=nkw, ctl=sorted(ctl), calls=show(o.calls), exc=show(exc)))


@obligation('A4', props=('C11', 'C18', 'C14'), quick=[dict(observer=False), dict(observer=True)], stubs=_STUBS,
            bounds='one oversized command sent in at most 4 chunks (sizes symbolic) to a voter or to a read-only node that disconnects after a symbolic number of chunks; a second voter is connected too')
def A4(inp, observer):
    """the receiver of a chunked entry disconnects in the middle of the transfer (the transport reports it while the leader is
    sending): the send round raises nothing - also when the receiver is a read-only node, whose table entries vanish with the
    disconnect -, nothing more goes to that peer and the other members are still served in the same round."""
    from pvf.obligations.snapshot import HookTransport
    ep = _install(inp)
    B = inp.int('B', 1, 70000)
    n = inp.int('n', 1, 4 * 70000)
    inp.assume(And(n >= B, n + 64 <= 4 * B))
    now = inp.real('now', 0)
    lead, _ = so.make('a', ['c'] if observer else ['b', 'c'], so.Clock(now), inp)
    lead.conf.appendEntriesBatchSizeBytes = B
    tr = HookTransport()
    put(lead, 'transport', tr)
    cmd = _command(1, n)
    so.set_log(lead, [(so.NOOP, 1, 0), (cmd, 2, 1)])
    put(lead, 'raftCurrentTerm', 1); put(lead, 'raftState', L); put(lead, 'raftLeader', Node('a'))
    b, c = Node('b'), Node('c')
    for x in (b, c):
        get(lead, 'connectedNodes').add(x)
        get(lead, 'raftNextIndex')[x] = 2
        get(lead, 'raftMatchIndex')[x] = 0
        get(lead, 'lastResponseTime')[x] = now
    if observer:
        get(lead, 'readonlyNodes').add(b)
    k = inp.choice('disconnect_after', 4) + 1
    state = {'gone_at': None}

    def on_hook():
        # the k-th message of the round; if it went to b, b's connection breaks right then
        if tr.sent[-1][0] == b:
            state['gone_at'] = len(tr.sent)
            getattr(lead, so.P + ('onReadonlyNodeDisconnected' if observer else 'onNodeDisconnected'))(b)
    tr.hook_at, tr.hook = k, on_hook
    _, exc = guard(getattr(lead, so.P + 'sendAppendEntries'))
    cl = {'no_exception': exc is None}
    if state['gone_at'] is not None:
        cl['nothing_sent_to_a_disconnected_peer'] = all(nd != b for nd, m in tr.sent[state['gone_at']:])
    if exc is None:
        cl['other_member_served'] = any(nd == c for nd, m in tr.sent)
    return Res(cl, nontrivial=state['gone_at'] is not None, obs=lambda: dict(observer=observer, k=k, gone_at=state['gone_at'], sent=[(nd.id, m.get('transmission')) for nd, m in tr.sent], exc=show(exc)))
