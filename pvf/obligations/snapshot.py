"""C09: snapshots -- what is captured and restored (S12), chunked transfer with interruptions (S4),
kill during the dump write (S5).  The real Serializer / __tryLogCompaction / __loadDumpFile run; gzip and
pickle inside pysyncobj.serializer are replaced by identity-capturing codecs so that indices, terms and
user state stay symbolic."""
import z3

from pvf.core import And, Or, Not, Implies, Iff, Eq, Ite, SymInt, Max
from pvf.registry import obligation, Res
from pvf import so, core, disk
from pvf.blob import Blob, S, symlen
from pvf.so import F, C, L, get, put, guard, show, Node
import pysyncobj.serializer as ser_mod
import pysyncobj.syncobj as so_mod
import pysyncobj.pickle as real_pickle
from pysyncobj.syncobj import SyncObj, SyncObjConsumer, replicated
from pysyncobj.config import SERIALIZER_STATE
import pysyncobj.batteries as bt

_STUBS = ('transport=RecTransport', 'monotonicTime=Clock', 'pysyncobj.serializer.gzip/pickle/BytesIO/open = identity-capturing codecs on tokens (fidelity of gzip/pickle themselves is outside)',
          'os.fork variant not modelled (useFork=False)')


def snap(x):
    """structural copy: containers are copied, leaves (ints, proxies, strings, nodes) are shared"""
    if isinstance(x, dict):
        return {k: snap(v) for k, v in x.items()}
    if isinstance(x, list):
        return [snap(v) for v in x]
    if isinstance(x, tuple):
        return tuple(snap(v) for v in x)
    if isinstance(x, set):
        return set(x)
    return x


class Token:
    def __init__(self, obj):
        self.obj = obj


class _IO:
    """BytesIO / file / GzipFile stand-in carrying tokens"""

    def __init__(self, initial=None, fileobj=None, mode='rb', name=None):
        self.items = [initial] if initial is not None else []
        self.fileobj, self.name, self.mode = fileobj, name, mode

    def write(self, t):
        if self.fileobj is None:
            self.items.append(t)
        elif hasattr(self.fileobj, 'items'):
            self.fileobj.items.append(t)
        else:
            self.fileobj.write(t)

    def read(self, n=None):
        src = self.fileobj if self.fileobj is not None else self
        return src.items[0] if src.items else None

    def getvalue(self):
        return self.items[0] if self.items else None

    def seek(self, *a):
        pass

    def close(self):
        pass

    def __enter__(self):
        return self

    def __exit__(self, *a):
        return False


class _Gzip:
    @staticmethod
    def GzipFile(fileobj=None, mode='rb'):
        return _IO(fileobj=fileobj, mode=mode)


class _Pickle:
    disk_tokens = False

    @staticmethod
    def dump(obj, f):
        if _Pickle.disk_tokens:
            f.write(Blob.fresh(('token', id(obj)), 20))      # an opaque complete image on the symbolic disk
        else:
            f.write(Token(snap(obj)))

    @staticmethod
    def load(f):
        t = f.read()
        if isinstance(t, Token):
            return snap(t.obj)
        raise ValueError('not a snapshot image: %r' % (t,))

    @staticmethod
    def to_bytes(d):
        return d


_REAL = {k: getattr(ser_mod, k) for k in ('gzip', 'pickle', 'BytesIO', 'atomicReplace', 'os')}


def install_memory():
    ser_mod.gzip, ser_mod.pickle, ser_mod.BytesIO = _Gzip, _Pickle, _IO
    ser_mod.len = symlen


class State(SyncObj):
    def __init__(self, *a, **kw):
        super(State, self).__init__(*a, **kw)
        self.x = 0
        self.items = []

    @replicated
    def setx(self, v):
        self.x = v

    @replicated
    def push(self, v):
        self.items.append(v)


def _mk(inp, selfid, members, clock, dyn):
    cons = [bt.ReplList(), bt.ReplCounter()]
    o, tr = so.make(selfid, list(members), clock, inp, cls=State, consumers=cons, dynamicMembershipChange=dyn, logCompactionMinEntries=2)
    return o, tr, cons


@obligation('S12', props=('C09', 'C01', 'C10', 'C06', 'C18', 'C07'), quick=[dict(n=2), dict(n=3)], thorough=[dict(n=2), dict(n=3), dict(n=4), dict(n=5)], stubs=_STUBS,
            bounds='log of n<=5 entries (first index 1..3), any applied/commit index, symbolic user state (int, list of 2, two consumers), dynamic membership on/off, commands applied between the snapshot and the trim')
def S12(inp, n):
    """compaction captures the state at the applied position: the image holds the user attributes and every consumer as
    they were when it was taken (later applies do not leak in), the entry at the applied index and its predecessor, the member
    set; the trim keeps everything from the predecessor on; loading the image on another node restores exactly that."""
    install_memory()
    dyn = inp.flag('dynamic')
    now = inp.real('now', 0)
    clock = so.Clock(now)
    a, tr, cons = _mk(inp, 'a', ('b', 'c'), clock, dyn)
    p = so.sym_state(inp, a, now, n, role=F, term_hi=4, base_hi=3, connected=('r0',), observers=['r0'])      # a read-only peer is connected: it is no member
    put(a, 'raftElectionDeadline', now + 100)
    pending = None
    if dyn and inp.flag('membership_entry_above_applied'):
        # a membership entry took effect when it was appended; it lies above the applied index and may still be truncated:
        # the snapshot describes the applied position, so its member set must not contain that change
        from pvf.obligations.membership import mcmd
        so_mod.pickle = real_pickle
        k = inp.choice('mpos', n)
        inp.assume(p.log[k][1] > p.applied)
        pending = (('rem', 'c'), ('add', 'd'))[inp.choice('mkind', 2)]
        log = list(p.log)
        log[k] = (mcmd(*pending), log[k][1], log[k][2])
        so.set_log(a, log)
        getattr(a, so.P + 'doChangeCluster')([pending[0], pending[1], Node(pending[1])])
    x0, i0, i1, c0 = (inp.int(k, -5, 5) for k in ('x0', 'i0', 'i1', 'c0'))
    a.x = x0
    a.items = [i0, i1]
    cons[0].append(i0, _doApply=True)
    cons[1].set(c0, _doApply=True)
    a.forceLogCompaction()
    _, exc = guard(getattr(a, so.P + 'tryLogCompaction'))
    ser = get(a, 'serializer')
    image = ser._Serializer__inMemorySerializedData
    can = p.applied - 1 >= p.base
    cl = {'no_exception': exc is None}
    cl['image_taken_iff_predecessor_in_log'] = Iff(can, image is not None)
    if image is None:
        return Res(cl, nontrivial=False, obs=lambda: dict(taken=False))
    # S3: the node keeps applying while the image exists
    a.setx(x0 + 7, _doApply=True)
    a.push(99, _doApply=True)
    cons[0].append(98, _doApply=True)
    cons[1].add(3, _doApply=True)
    put(a, 'raftLastApplied', p.commit)          # ... and its applied index moves on: the trim follows the snapshot, not the applied index
    _, exc1 = guard(getattr(a, so.P + 'tryLogCompaction'))
    q = so.post_state(a)
    cl['trim_no_exception'] = exc1 is None
    cl['trim_keeps_predecessor_and_above'] = And(Eq(q.log[0][1], p.applied - 1), Eq(q.last, p.last))
    cl['trimmed_entries_are_the_old_ones'] = And([so.has_entry(p.log, e[1], e[2]) for e in q.log])
    cl['indices_untouched'] = And(Eq(q.commit, p.commit), Eq(q.applied, p.commit))
    # load on another node
    # the loading node: another member, or a read-only node (no id of its own: every member of the snapshot is a partner)
    b, trb, consb = _mk(inp, None if inp.flag('loader_is_read_only') else 'z', ('a', 'b', 'q'), clock, dyn)      # q is not in the snapshot's member set
    get(b, 'serializer')._Serializer__incomingTransmissionData = image          # completely received, about to be looked at
    b.x, b.items = -77, ['stale']
    tb = inp.int('loader_term', 0, 5)
    put(b, 'raftCurrentTerm', tb); put(b, 'votedForNodeId', 'q')
    consb[0].append(-77, _doApply=True)
    _, exc2 = guard(getattr(b, so.P + 'loadDumpFile'), True)
    qb = so.post_state(b)
    cl['load_no_exception'] = exc2 is None
    cl['user_state_as_of_snapshot'] = And(Eq(b.x, x0), len(b.items) == 2 and And(Eq(b.items[0], i0), Eq(b.items[1], i1)))
    cl['consumers_as_of_snapshot'] = And(len(consb[0].rawData()) == 1 and Eq(consb[0].rawData()[0], i0), Eq(consb[1].get(), c0))
    cl['applied_index_restored'] = Eq(qb.applied, p.applied)
    cl['log_is_the_two_snapshot_entries'] = len(qb.log) == 2 and And(Eq(qb.log[0][1], p.applied - 1), Eq(qb.log[1][1], p.applied),
                                                                     so.has_entry(p.log, qb.log[0][1], qb.log[0][2]), so.has_entry(p.log, qb.log[1][1], qb.log[1][2]))
    if dyn:
        cl['member_set_restored'] = set(x.id for x in b.otherNodes) == {'a', 'b', 'c'}       # as of the applied position, whatever is pending above it
        cl['taking_a_snapshot_leaves_own_member_set'] = set(x.id for x in a.otherNodes) == ({'b', 'c'} if pending is None else {'b'} if pending[0] == 'rem' else {'b', 'c', 'd'})
        cl['transport_registry_follows_snapshot'] = sorted((k, nd.id) for k, nd in trb.registry) == [('add', 'c'), ('drop', 'q')]
        cl['tables_follow_snapshot'] = Node('q') not in get(b, 'raftNextIndex') and Node('c') in get(b, 'raftNextIndex')
    else:
        cl['member_set_untouched_without_dynamic_membership'] = set(x.id for x in b.otherNodes) == {'a', 'b', 'q'}
    # C07: term and vote are the node's own, a snapshot (taken by whoever, at whatever term) never replaces them
    cl['no_internal_state_leaks'] = And(Eq(get(b, 'raftCurrentTerm'), tb), get(b, 'votedForNodeId') == 'q', get(b, 'raftState') == F)
    return Res(cl, nontrivial=True, obs=lambda: dict(dyn=dyn, bx=show(b.x), items=show(b.items), log=show(qb.log), applied=show(qb.applied),
                                                     members=sorted(x.id for x in b.otherNodes), exc=show(exc2)))


# ---------------------------------------------------------------------------------------
class HookTransport(so.RecTransport):
    """recording transport that lets the harness run a hook after the k-th send"""

    def __init__(self):
        so.RecTransport.__init__(self)
        self.hook_at, self.hook = None, None

    def send(self, node, message):
        self.sent.append((node, message))
        if self.hook_at is not None and len(self.sent) == self.hook_at:
            self.hook()
        return True


@obligation('S4', props=('C09', 'C05', 'C18', 'C20'), quick=[dict(chunks=3, event='none'), dict(chunks=3, event='disconnect'), dict(chunks=3, event='disconnect', lose=True), dict(chunks=3, event='disconnect', observer=True), dict(chunks=3, event='newer'), dict(chunks=3, event='interim')],
            thorough=[dict(chunks=c_, event=e) for c_ in (6, 8) for e in ('none', 'disconnect', 'newer')] + [dict(chunks=6, event='disconnect', lose=True), dict(chunks=6, event='interim')], stubs=_STUBS + ('snapshot images are blobs of symbolic length',),
            bounds='image length 1..200000 and chunk size 1..70000 symbolic with at most `chunks` data chunks (chunk size larger than the image included); a disconnect, a newer completed snapshot, or the end of the send round followed by an interim leader and the re-election of the sender, after a symbolic number of sent chunks')
def S4(inp, chunks, event, lose=False, observer=False):
    """chunked snapshot transfer: whatever the chunk size and wherever the transfer is interrupted (disconnect and restart,
    or a newer snapshot completing on the leader), the follower installs only an image equal to one complete leader image,
    never a mixture; afterwards the leader's nextIndex for that follower is that image's index + 1."""
    install_memory()
    now = inp.real('now', 0)
    clock = so.Clock(now)
    lead, _ = so.make('a', ['b'], clock, inp)
    tr = HookTransport()
    put(lead, 'transport', tr)
    fol, ftr = so.make('b', ['a'], clock, inp)
    size1 = inp.int('size1', 1, 200000)
    size2 = inp.int('size2', 1, 200000)
    c = inp.int('chunk', 1, 70000)
    inp.assume(And(size1 <= (chunks - 0) * c, size2 <= chunks * c))
    ser = get(lead, 'serializer')
    ser._Serializer__transmissionBatchSize = c
    img1, img2 = Blob.fresh(('image', 1), size1), Blob.fresh(('image', 2), size2)
    ser._Serializer__inMemorySerializedData = img1
    b = Node('b')
    # leader: compacted log [4, 5], follower far behind
    so.set_log(lead, [(so.NOOP, 4, 1), (so.NOOP, 5, 1), (so.NOOP, 6, 1)])
    put(lead, 'raftCurrentTerm', 1); put(lead, 'raftState', L); put(lead, 'raftLeader', Node('a'))
    put(lead, 'raftCommitIndex', 6); put(lead, 'raftLastApplied', 6)
    get(lead, 'connectedNodes').add(b)
    get(lead, 'raftNextIndex')[b] = 2
    get(lead, 'raftMatchIndex')[b] = 0
    heard = now - 7
    if observer:
        # the lagging peer is a read-only node: no voter, its table entries vanish when it disconnects
        get(lead, 'otherNodes').discard(b)
        get(lead, 'otherNodes').add(Node('c')); get(lead, 'raftNextIndex')[Node('c')] = 7; get(lead, 'raftMatchIndex')[Node('c')] = 6; get(lead, 'lastResponseTime')[Node('c')] = now
        get(lead, 'readonlyNodes').add(b)
    else:
        get(lead, 'lastResponseTime')[b] = heard
    installed = []
    real_load = getattr(fol, so.P + 'loadDumpFile')

    def spy_load(clearJournal):
        installed.append(get(fol, 'serializer')._Serializer__incomingTransmissionData)
        # emulate the effect of a successful load (the decode of an abstract image is outside this obligation)
        so.set_log(fol, [(so.NOOP, 4, 1), (so.NOOP, 5, 1)])
        put(fol, 'raftLastApplied', 5)
        return None
    setattr(fol, so.P + 'loadDumpFile', spy_load)
    k = inp.choice('after', chunks + 1) + 1 if event != 'none' else None

    def on_hook():
        if event == 'disconnect':
            getattr(lead, so.P + ('onReadonlyNodeDisconnected' if observer else 'onNodeDisconnected'))(b)
        elif event == 'interim':
            clock.now = clock.now + 1          # the send round ends here (appendEntriesPeriod used up): the transfer continues next round
        else:
            # a newer snapshot completes on the leader: new image, transmissions reset (what checkSerializing does)
            ser._Serializer__inMemorySerializedData = img2
            ser._Serializer__pid = -1
            ser.checkSerializing()
    tr.hook_at, tr.hook = k, on_hook
    exc = None
    delivered = 0
    fdelivered = 0
    sent_is_not_heard = True
    for rnd in range(6):
        _, exc = guard(getattr(lead, so.P + 'sendAppendEntries'))
        if exc is not None:
            break
        msgs = tr.sent[delivered:]
        delivered = len(tr.sent)
        if b in get(lead, 'connectedNodes'):
            for nd, m in msgs:
                _, exc = guard(getattr(fol, so.P + 'onMessageReceived'), Node('a'), m)
                if exc is not None:
                    break
        else:
            # the bytes sent before the disconnect were delivered, the rest was not; then the peer reconnects
            # lose=True: the chunk that was being sent when the link broke never arrives
            for nd, m in msgs[:max(0, (k or 0) - (delivered - len(msgs)) - (1 if lose else 0))]:
                _, exc = guard(getattr(fol, so.P + 'onMessageReceived'), Node('a'), m)
            getattr(lead, so.P + ('onReadonlyNodeConnected' if observer else 'onNodeConnected'))(b)
        # sending is not hearing: what the leader sent must not count as a sign of life of the receiver
        if rnd == 0 and not observer:
            sent_is_not_heard = Eq(get(lead, 'lastResponseTime')[b], heard)
        if rnd == 0 and event == 'interim' and exc is None:
            # the leader is deposed; an interim leader c starts its own transfer to the follower (first chunk of another image);
            # then the old leader is elected again (term 3) and goes on serving the follower
            _, exc = guard(getattr(fol, so.P + 'onMessageReceived'), Node('c'),
                           {'type': 'append_entries', 'term': 2, 'commit_index': 6, 'serialized': (Blob.fresh(('image', 3), inp.int('size3', 1, 70000)), True, False)})
            put(lead, 'raftState', F); put(lead, 'raftCurrentTerm', 3)
            if exc is None:
                _, exc = guard(getattr(lead, so.P + 'onBecomeLeader'))
        # the follower's answers travel back
        for nd, m in ftr.sent[fdelivered:]:
            if exc is None:
                _, exc = guard(getattr(lead, so.P + 'onMessageReceived'), b, m)
        fdelivered = len(ftr.sent)
        if exc is not None or installed:
            break
    cl = {'no_exception': exc is None}
    if not observer and exc is None:
        cl['sending_chunks_is_not_hearing_from_the_follower'] = sent_is_not_heard
    cl['installed_exactly_once'] = len(installed) == 1
    if installed:
        img = Blob.coerce(installed[0])
        cl['installed_image_is_one_complete_leader_image'] = bool(img.whole(('image', 1), size1)) or bool(img.whole(('image', 2), size2))
        # (entries above the snapshot may already have been sent in the same call: 6 or 7)
        nx = get(lead, 'raftNextIndex')[b]
        # a disconnect noticed right after the last chunk leaves nextIndex where it was: the transfer is simply repeated
        # (after a re-election the leader's log also holds its new no-op at 7)
        cl['leader_next_index_after_snapshot'] = Or(And(nx >= 6, nx <= (8 if event == 'interim' else 7)), And(event == 'disconnect', Eq(nx, 2)))
    if event == 'none' and exc is None and installed:
        # the same follower needs the same snapshot a second time (its load failed, or it rejects what follows): the transfer
        # starts again from the first chunk and carries the whole image
        get(lead, 'raftNextIndex')[b] = 2
        n_before = len(tr.sent)
        tr.hook_at = None
        _, exc_again = guard(getattr(lead, so.P + 'sendAppendEntries'))
        again = [m['serialized'] for nd, m in tr.sent[n_before:] if m.get('serialized') is not None]
        whole_again = Blob()
        for ch in again:
            whole_again = whole_again + ch[0]
        cl['second_transfer_starts_from_the_beginning'] = exc_again is None and len(again) >= 1 and again[0][1] is True and again[-1][2] is True \
            and bool(whole_again.whole(('image', 1), size1))
    cl['snapshot_messages_say_which_code_version_they_need'] = all(m.get('snapshot_version') == 0 for nd, m in tr.sent if m.get('serialized') is not None)
    cl['snapshot_messages_say_where_the_snapshot_ends'] = all(m.get('snapshot_last') is not None and bool(And(Eq(m['snapshot_last'][0], 5), Eq(m['snapshot_last'][1], 1))) for nd, m in tr.sent if m.get('serialized') is not None)
    acks = [m for nd, m in ftr.sent if m['type'] == 'next_node_idx' and m['success'] is True]
    cl['success_ack_only_after_install'] = (len(acks) >= 1 and bool(Eq(acks[0]['next_node_idx'], 6))) if installed else len(acks) == 0
    return Res(cl, nontrivial=len(installed) == 1, obs=lambda: dict(event=event, after=k, sent=len(tr.sent), installed=[repr(x)[:120] for x in installed], exc=show(exc)))


# ---------------------------------------------------------------------------------------
@obligation('S5', props=('C09', 'C06'), quick=[dict(mode='dump'), dict(mode='incoming'), dict(mode='interleaved'), dict(mode='fork_child_late')], stubs=_STUBS + ('files on the symbolic disk of pvf.disk (primitive writes logged, kill between any two)', 'fork mode: the dump child is a second Serializer object whose primitives run after the parent installed a received snapshot'),
            bounds='one dump write (tmp file + atomic rename) or one incoming chunked transfer of 2 chunks into the dump path; kill before/after every primitive (case split: enumeration)')
def S5(inp, mode):
    """the dump file is always a complete old or a complete new snapshot: a kill at any point of the dump write or of an
    incoming transfer never leaves a torn or mixed image at the dump path."""
    install_memory()
    _Pickle.disk_tokens = True
    fs = disk.FS(False)
    disk.CUR = fs
    fs.base = {}
    ser_mod.open = disk.FakeFile
    ser_mod.atomicReplace = disk.repo_atomic_replace()
    ser_mod.os = _OsNoFork
    try:
        s = ser_mod.Serializer('dump', 3, False, None, None, None)
        old = Blob.fresh(('old-image',), 10)
        fs.files['dump'] = old
        fs.mark()
        if mode == 'dump':
            data = ('DATA', 1)
            _, exc = guard(s.serialize, data, 7)
            ok_state, _ = s.checkSerializing()
        elif mode == 'fork_child_late':
            # fork mode: the node's own dump child is still writing (older state) while a snapshot received from the leader is
            # installed; the child gets to its rename only afterwards (if it is still allowed to run)
            s = ser_mod.Serializer('dump', 3, True, None, None, None)
            parent_os = _OsFork(False)
            ser_mod.os = parent_os
            _, exc = guard(s.serialize, ('OWN', 1), 7)                      # parent: forks and returns
            c1, c2 = Blob.fresh(('new', 1), 5), Blob.fresh(('new', 2), 4)
            r1, exc = guard(s.setTransmissionData, (c1, True, False)) if exc is None else (None, exc)
            r2, exc = guard(s.setTransmissionData, (c2, False, False)) if exc is None else (None, exc)
            r3, exc = guard(s.setTransmissionData, (Blob(), False, True)) if exc is None else (None, exc)
            if exc is None and r3:
                _, exc = guard(s.acceptTransmission)          # the caller installs it
            if parent_os.alive:
                child = ser_mod.Serializer('dump', 3, True, None, None, None)
                ser_mod.os = _OsFork(True)
                try:
                    child.serialize(('OWN', 1), 7)
                except _ChildExit:
                    pass
                ser_mod.os = parent_os
        else:
            c1, c2 = Blob.fresh(('new', 1), 5), Blob.fresh(('new', 2), 4)
            r1, exc = guard(s.setTransmissionData, (c1, True, False))
            if mode == 'interleaved' and exc is None:
                # the node compacts its own log between two chunks of the incoming transfer
                _, exc = guard(s.serialize, ('OWN', 1), 7)
                s.checkSerializing()
            r2, exc = guard(s.setTransmissionData, (c2, False, False)) if exc is None else (None, exc)
            r3, exc = guard(s.setTransmissionData, (Blob(), False, True)) if exc is None else (None, exc)
            if exc is None and r3:
                _, exc = guard(s.acceptTransmission)          # the caller installs it
        nprim = len(fs.log)
        cut = inp.choice('cut', nprim + 1)
        files = fs.snapshot(cut)
        dump = files.get('dump')
        cl = {'no_exception': exc is None}
        if mode == 'dump':
            is_old = dump is not None and bool(Blob.coerce(dump).same(old))
            is_new = isinstance(dump, Blob) and dump.sole_origin() is not None and dump.sole_origin()[0][0] == 'token'
            cl['dump_is_complete_old_or_new'] = is_old or is_new
            cl['reported_success'] = ok_state == SERIALIZER_STATE.SUCCESS
            if cut == nprim:
                cl['completed_write_visible'] = is_new
        else:
            is_old = dump is not None and bool(Blob.coerce(dump).same(old))
            is_new = dump is not None and bool(Blob.coerce(dump).same(c1 + c2))
            is_own = isinstance(dump, Blob) and dump.sole_origin() is not None and dump.sole_origin()[0][0] == 'token'
            cl['dump_is_complete_old_or_new'] = is_old or is_new or (mode in ('interleaved', 'fork_child_late') and is_own)
            cl['install_reported_only_at_the_end'] = (r1, r2, r3) == (False, False, True)
            if cut == nprim:
                cl['completed_transfer_visible'] = is_new
    finally:
        _Pickle.disk_tokens = False
        for k_ in ('open',):
            if k_ in ser_mod.__dict__:
                del ser_mod.__dict__[k_]
        ser_mod.atomicReplace = _REAL['atomicReplace']
        ser_mod.os = _REAL['os']
    return Res(cl, nontrivial=cut < nprim, obs=lambda: dict(mode=mode, cut=cut, prims=[w for w, _ in fs.log], dump=repr(dump)[:100]))


class _OsNoFork:
    """os stand-in for pysyncobj.serializer: no fork attribute users (useFork is False), nothing else is used"""
    @staticmethod
    def fork():
        raise OSError('fork not modelled')


class _ChildExit(BaseException):
    pass


class _OsFork:
    """os stand-in modelling the dump child: fork() answers 4242 in the parent and 0 in the object standing for the child;
    the child ends with _exit; kill/waitpid end the child (it performs no further primitive)"""

    def __init__(self, child):
        self.child, self.killed, self.alive = child, [], True

    def fork(self):
        return 0 if self.child else 4242

    def _exit(self, code):
        raise _ChildExit(code)

    def kill(self, pid, sig):
        self.killed.append((pid, sig))
        self.alive = False

    def waitpid(self, pid, flags):
        if not self.alive:
            return (pid, 9)
        return (0, 0)

    def __getattr__(self, name):
        import os as _os
        return getattr(_os, name)


class _OsWait:
    """os stand-in for the fork path of checkSerializing: waitpid answers as told"""
    answer = None

    def __getattr__(self, name):
        import os as _os
        return getattr(_os, name)

    def waitpid(self, pid, flags):
        a = _OsWait.answer
        if a == 'oserror':
            raise OSError('no child')
        return a


@obligation('S6', props=('C09',), quick=[dict()], stubs=_STUBS + ('os.waitpid answers (0,0) / (pid,status) / OSError as told; the child itself is not modelled',),
            bounds='wait status from {0, 1<<8, 255<<8, 9 (killed), 0x7f}, still running, or waitpid failing (enumerated); the leader log of 4 entries is trimmed or not')
def S6(inp):
    """fork mode: compaction is reported successful - and the log trimmed - only when the dump child exited with status 0;
    a child that failed or was killed leaves the log untouched; a running child keeps the state SERIALIZING."""
    install_memory()
    now = inp.real('now', 0)
    o, tr = so.make('a', ['b'], so.Clock(now), inp, fullDumpFile='dumpfile', useFork=True)
    ser = get(o, 'serializer')
    so.set_log(o, [(so.NOOP, i, 0) for i in (1, 2, 3, 4)])
    put(o, 'raftCommitIndex', 4); put(o, 'raftLastApplied', 4)
    ser._Serializer__pid = 4242
    ser._Serializer__currentID = 3
    opts = [('running', (0, 0)), ('ok', (4242, 0)), ('exit1', (4242, 1 << 8)), ('exit255', (4242, 255 << 8)), ('killed', (4242, 9)), ('stopped', (4242, 0x7f)), ('oserror', 'oserror')]
    name, ans = opts[inp.choice('wait', len(opts))]
    fake = _OsWait()
    _OsWait.answer = ans
    real_os = ser_mod.os
    ser_mod.os = fake
    try:
        _, exc = guard(getattr(o, so.P + 'tryLogCompaction'))
    finally:
        ser_mod.os = real_os
    log = so.log_of(o)
    cl = {'no_exception': exc is None}
    cl['trimmed_iff_child_succeeded'] = (len(log) == 2 and log[0][1] == 3) if name == 'ok' else (len(log) == 4)
    cl['still_serializing_iff_running'] = (ser._Serializer__pid == 4242) == (name == 'running')
    return Res(cl, nontrivial=name != 'running', obs=lambda: dict(wait=name, log=[e[1] for e in log], pid=ser._Serializer__pid))


_RI_MODES = ('plain', 'corrupt', 'newer', 'side_effects', 'no_position')


@obligation('RI', props=('C01', 'C09', 'C04', 'C02'), quick=[dict(n=2, mode=m) for m in _RI_MODES] + [dict(n=3, mode='plain')],
            thorough=[dict(n=n, mode=m) for n in (2, 3, 4) for m in _RI_MODES] + [dict(n=5, mode='plain')], stubs=_STUBS,
            bounds='follower in any well-formed state with n<=4 entries; the last chunk of a snapshot taken at any index d in 2..6, above or below the follower commit and applied index (terms symbolic), leader commit any value >= d; earlier chunks present or missing')
def RI(inp, n, mode='plain'):
    """snapshot installation on a follower: only a complete transfer of a snapshot above the commit index is installed (a stale one
    changes nothing and is answered with commit+1); then the log is exactly the two snapshot
    entries, the applied index is the snapshot position, the user state is the snapshot's, indices do not move backwards and the
    commit index stays within the log; an incomplete transfer (first chunk missing) installs nothing and acknowledges nothing."""
    install_memory()
    now = inp.real('now', 0)
    clock = so.Clock(now)
    o, tr, cons = _mk(inp, 'a', ('b', 'c'), clock, False)
    p = so.sym_state(inp, o, now, n, term_hi=4, base_hi=2, connected=())
    o.x = -1
    d = inp.int('snap_idx', 2, 6)
    dt0, dt1 = inp.int('dt0', 0, 5), inp.int('dt1', 0, 5)
    mterm = inp.int('mterm', 0, 5)
    mci = inp.int('mci', 0, 9)
    inp.assume(And(dt0 <= dt1, dt1 <= mterm, mterm >= p.term, mci >= d))      # d may lie below what the node has applied (stale nextIndex on the leader)
    xs = inp.int('xs', 0, 5)
    image = Token(([{'x': xs, 'items': [xs]}, {'_ReplList__data': [xs]}, {'_ReplCounter__counter': xs}], (so.NOOP, d, dt1), (so.NOOP, d - 1, dt0),
                   set([Node('a'), Node('b'), Node('c')])))
    ser = get(o, 'serializer')
    started = inp.flag('first_chunk_seen')
    if started:
        ser._Serializer__incomingTransmissionFile = Blob()
    # the transfer's payload is opaque: the stub serializer concatenates chunks; the last (empty) chunk completes it
    real_set = ser.setTransmissionData

    def set_tx(data):
        ok = real_set(data)
        if ok:
            ser._Serializer__incomingTransmissionData = image
        return ok
    ser.setTransmissionData = set_tx
    own_stored = Token(('this node\'s own stored snapshot',))
    ser._Serializer__inMemorySerializedData = own_stored
    # mode: one deviation at a time (task parameter, not a case split inside the task)
    newer = mode == 'newer'                 # taken after a switch to a code version this node's code lacks
    corrupt = mode == 'corrupt'             # the received bytes cannot be decoded
    if corrupt:
        image = Blob.fresh(('garbage',), 5)          # e.g. chunks of two different snapshots glued together
    # the last own compaction was taken at this very position: a renewal must not be skipped as "nothing new"
    put(o, 'lastSerializedEntry', p.applied - 1)
    # callbacks of commands this node forwarded earlier: one for a position the snapshot covers, one above it
    from pvf.obligations.apply import Rec
    rec_cov, rec_above = Rec('covered'), Rec('above')
    wc = get(o, 'commandsWaitingCommit')
    cov_idx = d - inp.choice('cb_below', 2)
    inp.assume(And(cov_idx > p.applied, Not(Or(d <= p.commit, so.has_entry(p.log, d, dt1))), not corrupt) if inp.flag('with_callback') else True)
    wc[cov_idx].append((inp.int('cb_term', 0, 5), rec_cov))
    wc[d + 1].append((mterm, rec_above))
    msg = {'type': 'append_entries', 'term': mterm, 'commit_index': mci, 'serialized': (Blob(), False, True), 'snapshot_last': (d, dt1)}
    msg['snapshot_version'] = get(o, 'selfCodeVersion') + 1 if newer else 0       # (own version is 1 here: ReplList has a ver=1 method)
    if mode == 'no_position':
        del msg['snapshot_last']                 # a leader running older code: the follower has to read the snapshot to know
    side_effects = mode in ('newer', 'side_effects')
    if side_effects:
        # a user-supplied deserializer restores the object while it reads the file: reading a snapshot that will not be installed
        # must not happen when the leader said where it ends
        real_des = ser.deserialize

        def des(incoming=False):
            o.x = xs
            return real_des(incoming)
        ser.deserialize = des
        inp.assume('snapshot_last' in msg and not corrupt)          # (what a user deserializer does with an unreadable file is its own business)
    _, exc = guard(getattr(o, so.P + 'onMessageReceived'), Node('b'), msg)
    q = so.post_state(o)
    acks = [m for nd, m in tr.sent if m['type'] == 'next_node_idx' and m['success'] is True]
    cl = {'no_exception': exc is None}
    # a position covered by a snapshot was committed and applied: its outcome is unknown to this node, never "not applied"
    cl['no_failure_reported_for_positions_the_snapshot_covers'] = all(err == 0 for _, err in rec_cov.calls) and len(rec_cov.calls) <= 1
    cl['callbacks_above_the_snapshot_untouched'] = rec_above.calls == []
    # the snapshot's last entry is in the local log already (within the committed prefix, or same index and term): it carries
    # nothing new, the leader acted on an outdated reply
    stale = Or(d <= p.commit, so.has_entry(p.log, d, dt1))
    if started and newer:
        # C17: refused before it is read (a user deserializer restores the object as it reads): nothing changes, nothing is acknowledged
        cl['snapshot_of_a_newer_version_changes_nothing'] = And(so.logs_equal(p.log, q.log) if len(p.log) == len(q.log) else False, Eq(q.applied, p.applied), Eq(q.commit, p.commit), Eq(o.x, -1))
        cl['snapshot_of_a_newer_version_not_acknowledged'] = len(acks) == 0
    elif started and corrupt:
        # a snapshot that cannot be loaded installs nothing and verifies nothing: no acknowledgement, no commit advance (C02/C04)
        cl['undecodable_snapshot_changes_nothing'] = And(so.logs_equal(p.log, q.log) if len(p.log) == len(q.log) else False, Eq(q.applied, p.applied), Eq(q.commit, p.commit), Eq(o.x, -1))
        # (told where it ends, the follower does not even read a snapshot that ends inside its log: that one is answered like any stale one)
        known_stale = And('snapshot_last' in msg, stale)
        cl['undecodable_snapshot_not_acknowledged'] = Implies(Not(known_stale), len(acks) == 0)
    elif started:
        fresh = Not(stale)
        installed = And(len(q.log) == 2 and And(Eq(q.log[0][1], d - 1), Eq(q.log[1][1], d), Eq(q.log[0][2], dt0), Eq(q.log[1][2], dt1)), Eq(q.applied, d), Eq(o.x, xs))
        kept = And(so.logs_equal(p.log, q.log) if len(p.log) == len(q.log) else False, Eq(q.applied, p.applied), Eq(q.commit, p.commit), Eq(o.x, -1))
        cl['fresh_snapshot_installed'] = Implies(fresh, installed)
        cl['fresh_acknowledged_with_next_index'] = Implies(fresh, len(acks) == 1 and Eq(acks[0]['next_node_idx'], d + 1))
        # C01: the state is the snapshot's iff the applied index is the snapshot's
        cl['state_and_applied_index_agree'] = Or(installed, kept)
        # C04: entries this node holds above a snapshot that ends inside its log may be committed on the strength of its own
        # acknowledgement: they stay; the committed prefix stays
        cl['stale_snapshot_keeps_the_log'] = Implies(stale, kept)
        # the acknowledgement names an index up to which the log is known to equal the leader's (matchIndex soundness), and lies
        # above the snapshot (otherwise the leader sends the same snapshot for ever)
        cl['stale_snapshot_acknowledged_at_match'] = Implies(stale, len(acks) == 1 and And(acks[0]['next_node_idx'] - 1 <= Max(p.commit, d), acks[0]['next_node_idx'] >= d + 1))
        cl['indices_do_not_move_backwards'] = And(q.applied >= p.applied, q.commit >= p.commit)
        cl['commit_within_log'] = And(q.commit <= q.log[-1][1], q.commit >= q.applied)
    else:
        cl['incomplete_transfer_installs_nothing'] = And(so.logs_equal(p.log, q.log) if len(p.log) == len(q.log) else False, Eq(q.applied, p.applied),
                                                         Eq(q.commit, p.commit), len(acks) == 0, Eq(o.x, -1))
    cl['follows_the_sender'] = And(q.role == F, q.leader == Node('b'), Eq(q.term, mterm))
    if started and exc is None:
        # C06/C09: only a snapshot that is installed becomes the stored one - a stale or unreadable one must not replace this node's
        # (newer) stored snapshot, not even until the next compaction: a kill in between would restart the node behind its own log
        stored = ser._Serializer__inMemorySerializedData
        if corrupt or newer:
            cl['stored_snapshot_kept_unless_installed'] = stored is own_stored
        else:
            cl['stored_snapshot_kept_unless_installed'] = And(Implies(stale, stored is own_stored), Implies(Not(stale), stored is image))
    return Res(cl, nontrivial=started, obs=lambda: dict(started=started, corrupt=corrupt, log=show(q.log), applied=show(q.applied), commit=show(q.commit), x=show(o.x), exc=show(exc)))


@obligation('S7', props=('C09', 'C06'), quick=[dict()], stubs=_STUBS + ('open() / rename of the dump write fail as told (case split)',),
            bounds='inline dump mode (no fork); the tmp file cannot be created, the write fails, or the rename fails; log of 4 entries')
def S7(inp):
    """failed dump: when writing the snapshot file fails at any stage, compaction reports failure, the log is not trimmed, the old
    dump file is untouched and a later compaction can run again."""
    install_memory()
    _Pickle.disk_tokens = True
    fs = disk.FS(False)
    disk.CUR = fs
    fs.base = {}
    old = Blob.fresh(('old-image',), 10)
    fs.files['dumpfile'] = old
    stage = ('open', 'write', 'rename', 'none')[inp.choice('fails_at', 4)]

    class FailingFile(disk.FakeFile):
        def __init__(self, name, mode='r'):
            if stage == 'open' and 'w' in mode:
                raise IOError(13, 'Permission denied', name)
            disk.FakeFile.__init__(self, name, mode)

        def write(self, data):
            if stage == 'write':
                raise IOError(28, 'No space left on device')
            disk.FakeFile.write(self, data)

    def rename(a_, b_):
        if stage == 'rename':
            raise OSError(1, 'Operation not permitted')
        disk._rename(a_, b_)
    ser_mod.open = FailingFile
    ser_mod.atomicReplace = rename
    try:
        now = inp.real('now', 0)
        o, tr = so.make('a', ['b'], so.Clock(now), inp, fullDumpFile='dumpfile', useFork=False)
        so.set_log(o, [(so.NOOP, i, 0) for i in (1, 2, 3, 4)])
        put(o, 'raftCommitIndex', 4); put(o, 'raftLastApplied', 4)
        o.forceLogCompaction()
        _, exc = guard(getattr(o, so.P + 'tryLogCompaction'))
        _, exc2 = guard(getattr(o, so.P + 'tryLogCompaction'))
        log = so.log_of(o)
        dump = fs.files.get('dumpfile')
    finally:
        _Pickle.disk_tokens = False
        if 'open' in ser_mod.__dict__:
            del ser_mod.__dict__['open']
        ser_mod.atomicReplace = _REAL['atomicReplace']
    failed = stage != 'none'
    cl = {'no_exception': exc is None and exc2 is None}
    cl['trimmed_iff_dump_written'] = (len(log) == 4) == failed and (failed or (len(log) == 2 and log[0][1] == 3))
    cl['old_dump_untouched_on_failure'] = (not failed) or (dump is not None and bool(Blob.coerce(dump).same(old)))
    cl['new_dump_in_place_on_success'] = failed or (isinstance(dump, Blob) and dump.sole_origin() is not None and dump.sole_origin()[0][0] == 'token')
    cl['serializer_idle_again'] = get(o, 'serializer')._Serializer__pid == 0
    return Res(cl, nontrivial=failed, obs=lambda: dict(stage=stage, log=[e[1] for e in log], dump=repr(dump)[:80], exc=show(exc)))


# ---------------------------------------------------------------------------------------
def _pgc_params(grid):
    out = []
    for bl, ll, bf, lf in grid:
        out.append(dict(bl=bl, ll=ll, bf=bf, lf=lf))
    return out


_PGC_QUICK = [(3, 4, 1, 5), (2, 3, 1, 4), (2, 4, 1, 1), (2, 4, 1, 3), (2, 4, 1, 5), (3, 5, 1, 4), (2, 5, 3, 5), (3, 5, 2, 6), (2, 4, 4, 6), (3, 6, 1, 6)]
_PGC_THOROUGH = [(bl, ll, bf, lf) for bl in (2, 3, 4) for ll in (bl + 1, bl + 2, bl + 3) for bf in (1, 2, 3, 4, 5) for lf in range(bf + (1 if bf > 1 else 0), 8) if ll <= 7]


@obligation('PGC', props=('C05', 'C04', 'C09'), quick=_pgc_params(_PGC_QUICK), thorough=_pgc_params(_PGC_THOROUGH), stubs=_STUBS + ('the snapshot image is an opaque blob of 3 bytes sent in one chunk; decoding it on the follower yields the leader\'s two snapshot entries (state part empty)',),
            bounds='indices 1..7; leader log bl..ll with bl in 2..4 (compacted: snapshot of position bl+1 available), follower log bf..lf with bf in 1..5 (compacted or not), terms symbolic (0..3) and related by Log Matching with any agreement length, any nextIndex in 2..ll+1 (also inside the compacted part), sound matchIndex, any commit indices consistent with that')
def PGC(inp, bl, ll, bf, lf):
    """catch-up with compacted logs: one round (real __sendAppendEntries incl. the snapshot branch -> follower handles every message
    in order -> leader handles every reply in order).  Ranking: (Z) nextIndex inside the leader's compacted part: the follower ends
    up holding the snapshot's last entry and nextIndex leaves that part in this one round; once the follower holds that entry
    nextIndex never falls back into it.  (A) the entry before nextIndex was compacted away on the follower: nextIndex jumps into
    the follower's log and never falls below its first index again.  (B) otherwise the round leaves the follower caught up or
    strictly decreases nextIndex.  B* Z A? B* is finite: a connected follower is caught up within a bounded number of rounds
    (C05).  matchIndex stays sound, the follower's committed prefix and indices never shrink (C04)."""
    install_memory()
    from pvf.obligations.relational import _pair, T_HI
    lead, ltr, fol, ftr, now = _pair(inp, 100)
    M = 7
    a, b = Node('a'), Node('b')
    t = inp.int('t', 1, T_HI)
    lt = [None] + [inp.int('lt%d' % i, 0, T_HI) for i in range(1, M + 1)]
    ft = [None] + [inp.int('ft%d' % i, 0, T_HI) for i in range(1, M + 1)]
    for i in range(2, M + 1):
        inp.assume(And(lt[i] >= lt[i - 1], ft[i] >= ft[i - 1]))
    inp.assume(lt[M] <= t)
    g = inp.int('agree', 1, M)
    for i in range(1, M + 1):
        inp.assume(Iff(Eq(lt[i], ft[i]), i <= g))
    ftm = inp.int('fterm', 0, T_HI)
    inp.assume(And(ftm <= t, ft[lf] <= ftm))
    so.set_log(lead, [(so.NOOP, i, lt[i]) for i in range(bl, ll + 1)])
    so.set_log(fol, [(so.NOOP, i, ft[i]) for i in range(bf, lf + 1)])
    # commit indices: what a node compacted away was applied there; what the follower committed, the leader holds identically
    lc = inp.int('lcommit', bl + 1, ll)
    fc_lo = bf + 1 if bf > 1 else 1
    fc = inp.int('fcommit', fc_lo, lf)
    inp.assume(And(fc <= g, fc <= ll))
    put(lead, 'raftCurrentTerm', t); put(lead, 'raftState', L); put(lead, 'raftLeader', a)
    put(lead, 'raftCommitIndex', lc); put(lead, 'raftLastApplied', lc)
    put(fol, 'raftCurrentTerm', ftm); put(fol, 'raftElectionDeadline', now + 100)
    put(fol, 'raftCommitIndex', fc); put(fol, 'raftLastApplied', fc)
    get(lead, 'connectedNodes').add(b)
    nxt = inp.int('next', 2, ll + 1)
    mt = inp.int('match', 0, ll)
    inp.assume(And(mt <= g, mt <= lf, mt < nxt))
    get(lead, 'raftNextIndex')[b] = nxt
    get(lead, 'raftMatchIndex')[b] = mt
    get(lead, 'lastResponseTime')[b] = now
    # the leader's stored snapshot (position bl+1), one chunk; what the follower decodes from a complete transfer
    lser, fser = get(lead, 'serializer'), get(fol, 'serializer')
    img = Blob.fresh(('image', 1), 3)
    lser._Serializer__inMemorySerializedData = img
    decoded = []

    def decode(incoming=False):
        got = Blob.coerce(fser._Serializer__incomingTransmissionData if incoming else fser._Serializer__inMemorySerializedData)
        decoded.append(bool(got.whole(('image', 1), 3)))
        return (None, (so.NOOP, bl + 1, lt[bl + 1]), (so.NOOP, bl, lt[bl]), set([a, b]))
    fser.deserialize = decode
    _, exc = guard(getattr(lead, so.P + 'sendAppendEntries'))
    msgs = [m for nd, m in ltr.sent if nd == b]
    if exc is None:
        for m in msgs:
            _, exc = guard(getattr(fol, so.P + 'onMessageReceived'), a, m)
            if exc is not None:
                break
    replies = [m for nd, m in ftr.sent if nd == a]
    if exc is None:
        for m in replies:
            _, exc = guard(getattr(lead, so.P + 'onMessageReceived'), b, m)
            if exc is not None:
                break
    nxt1, mt1 = get(lead, 'raftNextIndex')[b], get(lead, 'raftMatchIndex')[b]
    flog, llog = so.log_of(fol), so.log_of(lead)
    fc1, fa1 = get(fol, 'raftCommitIndex'), get(fol, 'raftLastApplied')
    fbase1 = flog[0][1]

    def held(e):       # the follower holds the leader's entry e (below its first index: compacted, i.e. committed, hence equal)
        return Or(so.has_entry(flog, e[1], e[2]), e[1] < fbase1)
    caught = And(Eq(mt1, ll), And([held(e) for e in llog]))
    snap_entry = (so.NOOP, bl + 1, lt[bl + 1])
    in_zone = nxt <= bl
    cl = {'no_exception': exc is None}
    cl['image_decoded_only_when_complete'] = all(decoded)
    # ranking argument.  Z: nextIndex inside the leader's compacted part; A: the entry before nextIndex lies below the follower's
    # first index (the follower compacted it away); B: otherwise.
    below_f = nxt - 1 < bf
    holds_snap_entry = (bf > bl + 1) or And(g >= bl + 1, lf >= bl + 1)
    cl['Z_compacted_part_left_in_one_round'] = Implies(in_zone, And(nxt1 > bl, held(snap_entry)))
    cl['A_jumps_into_the_follower_log'] = Implies(And(Not(in_zone), below_f), Or(caught, nxt1 - 1 >= bf))
    cl['B_caught_up_or_next_decreased'] = Implies(And(Not(in_zone), Not(below_f)), And(Or(caught, nxt1 < nxt), nxt1 - 1 >= bf))
    cl['never_back_into_compacted_part'] = Implies(And(Not(in_zone), holds_snap_entry), nxt1 > bl)
    cl['match_index_sound'] = And(mt1 <= ll, And([Implies(e[1] <= mt1, held(e)) for e in llog]))
    cl['follower_indices_do_not_move_backwards'] = And(fc1 >= fc, fa1 >= fc)
    cl['follower_keeps_committed_prefix'] = And([Implies(i <= fc, Or(so.has_entry(flog, i, ft[i]), i < fbase1)) for i in range(bf, lf + 1)])
    cl['follower_commit_within_log'] = And(fc1 <= flog[-1][1], fa1 <= fc1)
    cl['leader_log_untouched'] = len(llog) == ll - bl + 1
    return Res(cl, nontrivial=True, obs=lambda: dict(msgs=[('snapshot' if m.get('serialized') is not None else (show(m.get('prevLogIdx')), len(m.get('entries', [])))) for m in msgs],
                                                     replies=[(show(m['next_node_idx']), m['success'], m['reset']) for m in replies],
                                                     next=(show(nxt), show(nxt1)), match=(show(mt), show(mt1)), flog=show(flog), fcommit=(show(fc), show(fc1)), exc=show(exc)),
               vars=dict(nmsgs=len(msgs)))


# ---------------------------------------------------------------------------------------
_SC_TIMES = (0.5, 2.0, 3.5, 5.0, 7.0, 9.5, 10.5, 13.5, 17.0, 20.0)


@obligation('SC', props=('C09', 'C18'), quick=[dict(who=w) for w in ('a', 'b', 'c', None)], stubs=_STUBS,
            bounds='3 voters a, b, c and optionally the node under test as a read-only node; log of 4 applied entries; logCompactionSplit on/off, logCompactionMinTime=10, '
                   'logCompactionMinEntries 2 or 100, forced or not, clock from 10 instants covering every slot of two periods, last snapshot at t=0 or t=-100')
def SC(inp, who):
    """compaction scheduling: a tick's compaction attempt never raises - also on a read-only node, which has no id to look up
    its slot with (C18: it keeps following); no snapshot is taken when none is due; without logCompactionSplit a due snapshot is
    taken; with it a voter takes one only inside its own slot of the period."""
    install_memory()
    now = _SC_TIMES[inp.choice('now', len(_SC_TIMES))]
    split = inp.flag('split')
    min_entries = (2, 100)[inp.choice('min_entries', 2)]
    others = [x for x in ('a', 'b', 'c') if x != who]
    o, tr = so.make(who, others, so.Clock(now), inp, logCompactionSplit=split, logCompactionMinTime=10, logCompactionMinEntries=min_entries)
    so.set_log(o, [(so.NOOP, i, 0) for i in (1, 2, 3, 4)])
    put(o, 'raftCommitIndex', 4); put(o, 'raftLastApplied', 4)
    last = (0.0, -100.0)[inp.choice('last_snapshot', 2)]
    put(o, 'lastSerializedTime', last)
    forced = inp.flag('forced')
    if forced:
        o.forceLogCompaction()
    same = inp.flag('nothing_applied_since_last_snapshot')
    if same:
        put(o, 'lastSerializedEntry', 3)
    _, exc = guard(getattr(o, so.P + 'tryLogCompaction'))
    ser = get(o, 'serializer')
    taken = ser._Serializer__inMemorySerializedData is not None
    # nothing new since the last snapshot: only a forced compaction writes one again (it renews a stored snapshot that was replaced)
    due = (4 > min_entries or now - last > 10 or forced) and (forced or not same)
    cl = {'no_exception': exc is None}
    cl['no_snapshot_when_none_is_due'] = due or not taken
    if not split:
        cl['due_snapshot_taken'] = taken == due
    elif who is not None:
        idx = ('a', 'b', 'c').index(who)
        phase = now % 10.0
        in_slot = idx * 10.0 / 3 <= phase < idx * 10.0 / 3 + 1.0
        cl['voter_snapshot_only_in_own_slot'] = taken == (due and in_slot)
    return Res(cl, nontrivial=due, obs=dict(who=who, now=now, split=split, due=due, taken=taken, exc=show(exc)))
