"""Replication step obligations R1/R2/R4 (append_entries on the follower), RS (snapshot-path
messages), R6 (acknowledgements), R7+F1 (leader tick: commit rule and fallback)."""
from pvf.core import And, Or, Not, Implies, Iff, Eq, Ite, Count, Min, Max
from pvf.registry import obligation, Res
from pvf import so
from pvf.so import F, C, L, get, put, guard, show, Node
from pvf.obligations.election import _mk, _common, IDS, T_HI, _STUBS

P = so.P


def _contiguous(log):
    return And([Eq(log[k][1], log[0][1] + k) for k in range(len(log))] or [True])


def _ae_msg(inp, p, m, n, base_hi=3):
    mterm = inp.int('mterm', 0, T_HI + 1)
    mci = inp.int('mci', 0, base_hi + n + m + 1)
    pli = inp.int('pli', 0, base_hi + n + 1)
    plt = inp.int('plt', 0, T_HI + 1)
    es = [inp.int('e%d' % i, 0, T_HI + 1) for i in range(m)]
    for i in range(m):
        inp.assume(es[i] >= (plt if i == 0 else es[i - 1]))
    if m:
        inp.assume(es[-1] <= mterm)
    else:
        inp.assume(plt <= mterm)
    entries = [(so.NOOP, pli + 1 + i, es[i]) for i in range(m)]
    msg = {'type': 'append_entries', 'term': mterm, 'commit_index': mci, 'prevLogIdx': pli, 'prevLogTerm': plt,
           'entries': entries}
    return msg, mterm, mci, pli, plt, entries


@obligation('R1', props=('C01', 'C04', 'C03', 'C05', 'C07'),
            quick=[dict(N=3, n=n, m=m) for n in (1, 2, 3) for m in (0, 1, 2)],
            thorough=[dict(N=3, n=n, m=m) for n in (1, 2, 3, 4, 5) for m in (0, 1, 2, 3)] + [dict(N=2, n=2, m=1), dict(N=5, n=2, m=1)],
            stubs=_STUBS,
            bounds='log entries n<=5 (first index 1..3 incl. compacted logs), batch m<=3, terms 0..5, any role, any prevLogIdx/prevLogTerm/commit fields')
def R1(inp, N, n, m):
    """append_entries on any node: consistency check (success iff the log holds (prevLogIdx, prevLogTerm)),
    prefix kept, new entries stored, truncate only on conflict (R2), commit moves only over verified
    entries and never back (R4), stale-term messages change nothing."""
    o, tr, now = _mk(inp, N)
    p = so.sym_state(inp, o, now, n, term_hi=T_HI, connected=())     # the handler never reads connectivity
    sender = p.others[inp.choice('sender', len(p.others))]
    msg, mterm, mci, pli, plt, entries = _ae_msg(inp, p, m, n)
    _, exc = guard(getattr(o, P + 'onMessageReceived'), sender, msg)
    q = so.post_state(o)
    replies = tr.of_type('next_node_idx')
    cl = _common(p, q, exc)
    stale = mterm < p.term
    have_prev = so.has_entry(p.log, pli, plt)
    cl['log_nonempty_contiguous'] = And(len(q.log) >= 1, _contiguous(q.log))
    # (a correct leader never sends entries that conflict with a follower's committed prefix: Leader Completeness)
    sane = And([Implies(And(e[1] <= p.commit, e[1] >= p.base), so.has_entry(p.log, e[1], e[2])) for e in entries] or [True])
    cl['commit_within_log'] = Implies(sane, And(q.commit <= q.last, q.applied <= q.commit)) if q.log else False
    cl['stale_term_ignored'] = Implies(stale, And(len(tr.sent) == 0, so.logs_equal(p.log, q.log) if len(p.log) == len(q.log) else False,
                                                  Eq(q.commit, p.commit), Eq(q.term, p.term), q.role == p.role, q.voted == p.voted,
                                                  Eq(q.deadline, p.deadline), q.leader == p.leader))       # a deposed leader's heartbeat must not postpone the election either
    cl['accepts_leader'] = Implies(Not(stale), And(q.role == F, q.leader == sender, Eq(q.term, mterm)))
    cl['only_acks_to_sender'] = len(tr.sent) == len(replies) and all(nd == sender for nd, _ in tr.sent)
    cl['one_reply_when_current'] = Implies(Not(stale), len(replies) == 1)
    success = False
    if replies:
        r = replies[0]
        success = r['success']
        cl['success_iff_prev_matches'] = Iff(success, And(Not(stale), have_prev))
        cl['success_reply_index'] = Implies(success, Eq(r['next_node_idx'], pli + m + 1))
        # rejection must let the leader make progress (C05): index below the probe, or own end+1
        cl['reject_hint'] = Implies(Not(success), And(r['reset'] is True, Or(r['next_node_idx'] <= pli, Eq(r['next_node_idx'], p.last + 1))))
        cl['reject_keeps_log'] = Implies(Not(success), so.logs_equal(p.log, q.log) if len(p.log) == len(q.log) else False)
    ok = And(Not(stale), have_prev)
    cl['prefix_kept'] = Implies(ok, And([Implies(e[1] <= pli, so.has_entry(q.log, e[1], e[2])) for e in p.log]))
    cl['new_entries_stored'] = Implies(ok, And([so.has_entry(q.log, e[1], e[2]) for e in entries] or [True]))
    cl['nothing_invented'] = And([Or(so.has_entry(p.log, e[1], e[2]), so.has_entry(entries, e[1], e[2])) for e in q.log])
    # R2: a pre-log entry above prevLogIdx may vanish/change only if the message conflicts at or below it
    def conflict_upto(i):
        return Or([And(e[1] <= i, e[1] <= p.last, Not(so.has_entry(p.log, e[1], e[2]))) for e in entries] or [False])
    cl['truncate_only_on_conflict'] = Implies(ok, And([Implies(e[1] > pli, Or(so.has_entry(q.log, e[1], e[2]), conflict_upto(e[1]))) for e in p.log]))
    # R4
    cl['commit_only_over_verified'] = Implies(q.commit > p.commit, And(ok, q.commit <= mci, q.commit <= pli + m))
    cl['commit_follows_leader'] = Implies(And(ok, mci > p.commit), q.commit >= Min(mci, pli + m))
    obs = lambda: dict(role=p.role, sender=sender.id, sent=[(nd.id, show(mm)) for nd, mm in tr.sent], post_log=show(q.log),
               post_commit=show(q.commit), pre_log=show(p.log), exc=show(exc))
    return Res(cl, nontrivial=ok, obs=obs,
               vars=dict(m=m, n=n, pli=pli, last=p.last, mci=mci, commit=p.commit))


@obligation('R1c', props=('C02', 'C01'), quick=[dict()], stubs=_STUBS,
            bounds='follower log [1, 2, 3] whose entries 2.. are a stale tail of an older term (terms symbolic); a command it forwarded was answered by the new leader with index 2 or 3 and the new term; '
                   'then the new leader\'s append_entries replaces the tail (1 or 2 entries) or is a heartbeat')
def R1c(inp):
    """storing or truncating entries decides nothing about a waiting command: a callback registered for (index, term) of the new
    leadership, at an index still occupied here by a stale entry, is neither called nor dropped when that entry is replaced; it
    fires when its index is applied (R8)."""
    from pvf.obligations.apply import Rec
    o, tr, now = _mk(inp, 3)
    told, tnew = inp.int('stale_term', 0, 3), inp.int('new_term', 1, 4)
    inp.assume(tnew > told)
    so.set_log(o, [(so.NOOP, 1, 0), (so.NOOP, 2, told), (so.NOOP, 3, told)])
    put(o, 'raftCurrentTerm', tnew); put(o, 'raftCommitIndex', 1); put(o, 'raftLastApplied', 1)
    put(o, 'raftElectionDeadline', now + 100)
    sender = Node('b')
    put(o, 'raftLeader', sender)
    waiting = Rec('forwarded')
    widx = 2 + inp.choice('waiting_at', 2)
    get(o, 'commandsWaitingCommit')[widx].append((tnew, waiting))
    m = inp.choice('entries', 3)
    msg = {'type': 'append_entries', 'term': tnew, 'commit_index': 1, 'prevLogIdx': 1, 'prevLogTerm': 0,
           'entries': [(so.NOOP, 2 + i, tnew) for i in range(m)]}
    _, exc = guard(getattr(o, P + 'onMessageReceived'), sender, msg)
    cl = {'no_exception': exc is None}
    cl['waiting_callback_untouched_by_append'] = waiting.calls == [] and any(cb is waiting for lst in get(o, 'commandsWaitingCommit').values() for _, cb in lst)
    return Res(cl, nontrivial=m > 0, obs=lambda: dict(entries=m, waiting_at=widx, calls=show(waiting.calls), log=show(so.log_of(o)), exc=show(exc)))


@obligation('RS', props=('C01', 'C04', 'C02'),
            quick=[dict(kind=k, n=n) for k in ('none', 'chunk', 'start', 'process') for n in (2, 3)],
            stubs=_STUBS + ('real in-memory Serializer (no dump file)',),
            bounds='n<=3 entries, terms 0..5, any commit fields; kinds: serialized=None, first snapshot chunk (not last), transmission start/process chunk')
def RS(inp, kind, n):
    """messages that verify nothing (snapshot chunk that is not the last, serialized=None heartbeat,
    start/process chunk of a big entry) never move the follower's commit index and never change its log."""
    o, tr, now = _mk(inp, 3)
    p = so.sym_state(inp, o, now, n, term_hi=T_HI, connected=())
    sender = p.others[inp.choice('sender', len(p.others))]
    mterm = inp.int('mterm', 0, T_HI + 1)
    mci = inp.int('mci', 0, 3 + n + 2)
    msg = {'type': 'append_entries', 'term': mterm, 'commit_index': mci}
    if kind == 'none':
        msg['serialized'] = None
    elif kind == 'chunk':
        msg['serialized'] = (b'xx', True, False)
    else:
        if kind == 'process':
            put(o, 'recvTransmission', b'zz')       # FIFO: a process chunk is always preceded by its start chunk
        msg.update(transmission=kind, data=b'xx', prevLogIdx=inp.int('pli', 0, 3 + n), prevLogTerm=inp.int('plt', 0, T_HI + 1))
    _, exc = guard(getattr(o, P + 'onMessageReceived'), sender, msg)
    q = so.post_state(o)
    cl = _common(p, q, exc)
    cl['commit_unchanged'] = Eq(q.commit, p.commit)
    cl['log_unchanged'] = so.logs_equal(p.log, q.log) if len(p.log) == len(q.log) else False
    cl['no_success_ack'] = all(not (mm.get('type') == 'next_node_idx' and mm['success'] is True) for _, mm in tr.sent)
    obs = lambda: dict(kind=kind, role=p.role, post_commit=show(q.commit), sent=[(nd.id, show(mm)) for nd, mm in tr.sent], exc=show(exc))
    return Res(cl, nontrivial=And(mterm >= p.term, mci > p.commit), obs=obs, vars=dict(kind=kind, mci=mci, commit=p.commit))


@obligation('R6', props=('C04', 'C01', 'C05', 'C20', 'C02', 'C11'),
            quick=[dict(N=3, n=2)], thorough=[dict(N=N, n=n) for N in (2, 3, 5) for n in (1, 2, 3)] + [dict(N=3, n=2, obs=1)],
            stubs=_STUBS, bounds='N<=5, n<=3, any role, any reply fields (success/reset flags, index 0..last+3)')
def R6(inp, N, n, obs=0):
    """acknowledgement handling: matchIndex only grows and only to idx-1 of a success reply; nextIndex is
    set on reset or on growth; lastResponseTime=now; only the sender's entries change; non-leaders ignore."""
    o, tr, now = _mk(inp, N)
    p = so.sym_state(inp, o, now, n, term_hi=T_HI, observers=['r%d' % i for i in range(obs)], connected=[x for x in IDS[1:N]] + ['r%d' % i for i in range(obs)])
    cands = [x for x in p.others + p.observers if x.id in p.next or p.role != L]
    sender = cands[inp.choice('sender', len(cands))]
    idx = inp.int('idx', 0, 3 + n + 3)
    reset, success = inp.flag('reset'), inp.flag('success')
    msg = {'type': 'next_node_idx', 'next_node_idx': idx, 'reset': reset, 'success': success}
    _, exc = guard(getattr(o, P + 'onMessageReceived'), sender, msg)
    q = so.post_state(o)
    cl = _common(p, q, exc)
    cl['nothing_sent'] = len(tr.sent) == 0
    cl['log_commit_term_role_unchanged'] = And(so.logs_equal(p.log, q.log) if len(p.log) == len(q.log) else False,
                                               Eq(q.commit, p.commit), Eq(q.term, p.term), q.role == p.role)
    s = sender.id
    if p.role == L:
        grew = And(success, idx - 1 > p.match[s])
        cl['match_rule'] = Eq(q.match[s], Ite(grew, idx - 1, p.match[s]))
        # growth sets nextIndex to the reply's index; a rejection (reset) may only move it down to the reply's hint
        cl['next_rule'] = Ite(grew, Eq(q.next[s], idx), Ite(reset, Or(Eq(q.next[s], idx), Eq(q.next[s], Min(p.next[s], idx))), Eq(q.next[s], p.next[s])))
        cl['response_time_now'] = Eq(q.resp.get(s), now)
        cl['others_untouched'] = And([And(Eq(q.match[k], p.match[k]), Eq(q.next[k], p.next[k])) for k in p.match if k != s] +
                                     [Eq(q.resp[k], p.resp[k]) for k in p.resp if k != s])
    else:
        cl['non_leader_ignores'] = And(sorted(q.match) == sorted(p.match), sorted(q.resp) == sorted(p.resp))
    obs_ = lambda: dict(role=p.role, sender=s, reset=reset, success=success, post_match=show(q.match), post_next=show(q.next), exc=show(exc))
    return Res(cl, nontrivial=p.role == L, obs=obs_)


def _majority(flags, N):
    return 2 * (1 + Count(flags)) > N


@obligation('R7', props=('C04', 'C01', 'C20', 'C18', 'C05', 'C03', 'C02'),
            quick=[dict(N=2, n=2), dict(N=3, n=3), dict(N=4, n=2), dict(N=5, n=2), dict(N=3, n=2, obs=1)],
            thorough=[dict(N=N, n=n) for N in (1, 2, 3, 4, 5) for n in (2, 3, 4)] + [dict(N=3, n=3, obs=2), dict(N=2, n=2, obs=3), dict(N=4, n=2, obs=1)],
            stubs=_STUBS, bounds='voters N<=5 (both parities), observers<=3, n<=4, terms 0..4, matchIndex/lastResponseTime arbitrary, fallback timeout in (appendEntriesPeriod, 30], clock unbounded')
def R7(inp, N, n, obs=0):
    """leader tick: commit index advances only to an index stored by a strict majority of voters whose
    entry has the current term (R7), never back; the node stays leader iff a strict majority of voters
    answered within the fallback timeout (F1); observers never matter (O2); the log is untouched (R5)."""
    o, tr, now = _mk(inp, N)
    fb = inp.real('fallback', 0.1, 30, lo_strict=True)
    o.conf.leaderFallbackTimeout = fb
    allpeers = [x for x in IDS[1:N]] + ['r%d' % i for i in range(obs)]
    p = so.sym_state(inp, o, now, n, role=L, term_hi=T_HI, observers=['r%d' % i for i in range(obs)], connected=allpeers)   # no sending in this tick: connectivity is irrelevant
    put(o, 'newAppendEntriesTime', now + 1)          # no heartbeat in this tick (sending is PG/A2's subject)
    stored = []
    get(o, 'raftLog').setRaftCommitIndex = stored.append      # what would go to the journal's .meta
    _, exc = guard(o._onTick, 0.0)
    q = so.post_state(o)
    voters = [x.id for x in p.others]
    cl = _common(p, q, exc)
    c1 = q.commit

    def maj(i):
        return _majority([p.match[v] >= i for v in voters], N)
    cl['commit_needs_majority_and_current_term'] = Implies(c1 > p.commit, And(maj(c1), Eq(so.term_at(p.log, c1), p.term), c1 <= p.last))
    cl['commit_complete'] = And([Implies(And(e[1] > p.commit, maj(e[1]), Eq(e[2], p.term)), c1 >= e[1]) for e in p.log])
    heard = _majority([p.resp[v] > now - fb for v in voters], N)
    cl['stays_leader_iff_majority_heard'] = Iff(q.role == L, heard)
    cl['stepdown_clears_leader'] = Implies(Not(heard), And(q.role == F, q.leader is None))
    cl['log_untouched'] = so.logs_equal(p.log, q.log) if len(p.log) == len(q.log) else False
    cl['applies_up_to_commit'] = Eq(q.applied, q.commit)
    cl['term_vote_unchanged'] = And(Eq(q.term, p.term), q.voted == p.voted)
    cl['persisted_commit_index_is_the_commit_index'] = And([Eq(v, q.commit) for v in stored] or [True])
    obs_ = lambda: dict(N=N, post_role=q.role, post_commit=show(q.commit), sent=[(nd.id, mm['type']) for nd, mm in tr.sent], exc=show(exc))
    return Res(cl, nontrivial=Or(c1 > p.commit, Not(heard)), obs=obs_)


@obligation('F3', props=('C20', 'C18'),
            quick=[dict(N=3, n=2), dict(N=3, n=2, ro=True)], thorough=[dict(N=N, n=n) for N in (2, 3, 5) for n in (2, 3)] + [dict(N=3, n=2, ro=True)],
            stubs=_STUBS, bounds='N<=5, n<=3, role in {F,C} with an election not due')
def F3(inp, N, n, ro=False):
    """a node that is not leader never advances its commit index in a tick, appends nothing and sends no append_entries."""
    o, tr, now = _mk(inp, N, ro)
    role = F if ro else inp.choice('role', 2)
    p = so.sym_state(inp, o, now, n, role=role, term_hi=T_HI)
    inp.assume(p.deadline >= now)
    _, exc = guard(o._onTick, 0.0)
    q = so.post_state(o)
    cl = _common(p, q, exc)
    cl['commit_unchanged'] = Eq(q.commit, p.commit)
    cl['log_untouched'] = so.logs_equal(p.log, q.log) if len(p.log) == len(q.log) else False
    cl['sends_nothing'] = len(tr.sent) == 0
    cl['role_term_unchanged'] = And(q.role == p.role, Eq(q.term, p.term))
    cl['applies_up_to_commit'] = Eq(q.applied, p.commit)
    return Res(cl, nontrivial=True, obs=lambda: dict(role=p.role, exc=show(exc), post_applied=show(q.applied)))


@obligation('F4', props=('C20', 'C18'),
            quick=[dict(N=N, obs=o) for N in (1, 2, 3, 4, 5) for o in (0, 2)] + [dict(N=3, obs=1, ro=True)],
            thorough=[dict(N=N, obs=o) for N in (1, 2, 3, 4, 5) for o in (0, 1, 2, 3)] + [dict(N=N, obs=1, ro=True) for N in (1, 2, 3, 4)],
            stubs=_STUBS, bounds='voters N<=5, observers<=3, one connected ex-member; connectivity of every peer is a case split (finite: enumeration, not solving)')
def F4(inp, N, obs=0, ro=False):
    """has-quorum indicator: true exactly when the connected voters (plus the node itself if it votes) are a strict
    majority of the voters it knows; observers and connected non-members never count."""
    o, tr, now = _mk(inp, N, ro)
    voters = sorted(get(o, 'otherNodes'), key=lambda x: x.id)
    cn = get(o, 'connectedNodes')
    nconn = 0
    for v in voters:
        if inp.flag('conn_' + v.id):
            cn.add(v)
            nconn += 1
    for i in range(obs):
        if inp.flag('conn_r%d' % i):
            r = Node('r%d' % i)
            cn.add(r)
            get(o, 'readonlyNodes').add(r)
    if inp.flag('conn_exmember'):
        cn.add(Node('zz'))
    me = 0 if ro else 1
    want = 2 * (nconn + me) > (len(voters) + me)
    got, exc = guard(lambda: (o.hasQuorum, o.getStatus()['has_quorum']))
    cl = {'no_exception': exc is None}
    if exc is None:
        cl['has_quorum_iff_majority_of_voters_connected'] = got[0] is want and got[1] is want
    return Res(cl, nontrivial=True, obs=lambda: dict(N=N, ro=ro, connected_voters=nconn, connected=sorted(x.id for x in cn), got=show(got), want=want))


@obligation('O3', props=('C18', 'C05'), quick=[dict(n=2), dict(n=3)], stubs=_STUBS,
            bounds='leader with 1 voter and 2 observers (connected or not), n<=3 entries, any nextIndex per peer')
def O3(inp, n):
    """observers are served like voters: one __sendAppendEntries call sends to every connected peer - voter or observer - the
    entries from its own nextIndex to the log end (or a heartbeat), and nothing to disconnected peers; observer connect /
    disconnect creates / removes exactly that observer's table entries."""
    o, tr, now = _mk(inp, 2)
    p = so.sym_state(inp, o, now, n, role=L, term_hi=T_HI, base_hi=1, observers=['r0', 'r1'])
    for k, v in p.next.items():
        inp.assume(v >= 2)
    _, exc = guard(getattr(o, P + 'sendAppendEntries'))
    cl = {'no_exception': exc is None}
    for x in p.others + p.observers:
        msgs = [m for nd, m in tr.sent if nd == x]
        if not p.conn[x.id]:
            cl['nothing_to_disconnected_%s' % x.id] = len(msgs) == 0
            continue
        covered = [e[1] for m in msgs for e in m.get('entries', [])]
        want = [p.next[x.id] + d for d in range(len(covered))]
        cl['served_%s' % x.id] = And(len(msgs) >= 1, And([Eq(c_, w) for c_, w in zip(covered, want)] or [True]), Eq(p.next[x.id] + len(covered), p.last + 1))
    # observer joins / leaves
    r2 = Node('r2')
    keys0 = set(k.id for k in get(o, 'raftNextIndex'))
    put(o, 'newAppendEntriesTime', now + 0.01)          # the voters' next heartbeat is almost due
    hb0, nsent0 = get(o, 'newAppendEntriesTime'), len(tr.sent)
    _, e1 = guard(getattr(o, P + 'onReadonlyNodeConnected'), r2)
    cl['observer_join_leaves_the_heartbeat_schedule_alone'] = Eq(get(o, 'newAppendEntriesTime'), hb0) and all(nd == r2 for nd, _ in tr.sent[nsent0:])
    q1 = so.post_state(o)
    cl['observer_join_adds_only_its_entries'] = e1 is None and set(q1.next) == keys0 | {'r2'} and set(q1.match) == keys0 | {'r2'} and \
        bool(Eq(q1.next['r2'], p.last + 1)) and bool(Eq(q1.match['r2'], 0)) and r2 in o.readonlyNodes and o.isNodeConnected(r2)
    _, e2 = guard(getattr(o, P + 'onReadonlyNodeDisconnected'), r2)
    q2 = so.post_state(o)
    cl['observer_leave_removes_only_its_entries'] = e2 is None and set(q2.next) == keys0 and set(q2.match) == keys0 and r2 not in o.readonlyNodes and not o.isNodeConnected(r2)
    cl['voter_set_untouched'] = set(x.id for x in o.otherNodes) == set(x.id for x in p.others)
    return Res(cl, nontrivial=any(p.conn[x.id] for x in p.observers), obs=lambda: dict(conn=p.conn, sent=[(nd.id, len(m.get('entries', []))) for nd, m in tr.sent], exc=show(exc)))


@obligation('F2', props=('C20', 'C14', 'C03', 'C07'), quick=[dict(N=3, n=2)], thorough=[dict(N=N, n=2) for N in (2, 3, 5)], stubs=_STUBS,
            bounds='N<=5, any role, any tables; a transport connect or disconnect notification for any voter')
def F2(inp, N, n):
    """connection notifications are not replies: a connect / disconnect notification changes nothing but the connected set -
    in particular not the leader's record of when it last heard from that voter, nor matchIndex / nextIndex, role or term."""
    o, tr, now = _mk(inp, N)
    p = so.sym_state(inp, o, now, n, term_hi=T_HI)
    node = p.others[inp.choice('node', len(p.others))]
    up = inp.flag('connect')
    _, exc = guard(getattr(o, P + ('onNodeConnected' if up else 'onNodeDisconnected')), node)
    q = so.post_state(o)
    cl = _common(p, q, exc)
    cl['tables_untouched'] = And([Eq(q.resp[k], p.resp[k]) for k in p.resp] + [Eq(q.match[k], p.match[k]) for k in p.match] + [Eq(q.next[k], p.next[k]) for k in p.next] +
                                 [sorted(q.resp) == sorted(p.resp), sorted(q.match) == sorted(p.match)])
    cl['role_term_log_untouched'] = And(q.role == p.role, Eq(q.term, p.term), Eq(q.commit, p.commit), so.logs_equal(p.log, q.log) if len(p.log) == len(q.log) else False)
    cl['connected_set_updated'] = o.isNodeConnected(node) == up and len(tr.sent) == 0
    return Res(cl, nontrivial=p.role == L, obs=lambda: dict(role=p.role, node=node.id, up=up, exc=show(exc)))
