"""C17: code versions -- id stability (V1), dispatch (V2), setCodeVersion validation (V3), unsupported version
in a batch (V4), name table after loading a snapshot (V5)."""
import itertools

from pvf.core import And, Or, Not, Implies, Iff, Eq, Ite
from pvf.registry import obligation, Res
from pvf import so, cmds, core
from pvf.so import F, C, L, get, put, guard, show, Node
import pysyncobj.syncobj as so_mod
from pysyncobj.syncobj import SyncObj, SyncObjConsumer, SyncObjConf, replicated
from pysyncobj.config import FAIL_REASON

_STUBS = ('transport=RecTransport', 'monotonicTime=Clock', 'classes generated from source text with the real @replicated decorator')
VSETS = ([], [0], [1], [0, 1], [0, 2])
SLOTS = ((0, 'f'), (0, 'g'), (1, 'f'), (2, 'h'))


def _class_src(name, base, methods):
    """methods: list of (method name, version)"""
    lines = ['class %s(%s):' % (name, base)]
    if base == 'SyncObj':
        lines += ['    def __init__(self, *a, **kw):', '        super(%s, self).__init__(*a, **kw)' % name, '        self.trace = []']
    else:
        lines += ['    def __init__(self):', '        super(%s, self).__init__()' % name, '        self.trace = []']
    for m, v in methods:
        lines += ['    @replicated(ver=%d)' % v if v else '    @replicated', '    def %s(self, x=0):' % m,
                  '        self.trace.append((%r, %d, x))' % (m, v), '        return (%r, %d)' % (m, v)]
    if not methods:
        lines += ['    pass']
    return '\n'.join(lines) + '\n'


def _build(shape, inp, tag, **conf):
    """shape: {(owner, name): [versions]} -> (object, consumers)"""
    ns = {'SyncObj': SyncObj, 'SyncObjConsumer': SyncObjConsumer, 'replicated': replicated}
    owners = sorted(set(o for o, _ in shape) | {0})
    for o in owners:
        ms = [(n, v) for (oo, n), vs in sorted(shape.items()) if oo == o for v in sorted(vs)]
        exec(_class_src('K%s%d' % (tag, o), 'SyncObj' if o == 0 else 'SyncObjConsumer', ms), ns)
    consumers = [ns['K%s%d' % (tag, o)]() for o in owners if o != 0]
    now = 0.0
    obj, tr = so.make('a', ['b'], so.Clock(now), inp, cls=ns['K%s0' % tag], consumers=consumers, **conf)
    return obj, consumers, tr


def _ident(o, consumers, m):
    owner = 0 if m.__self__ is o else 1 + [c for c in consumers].index(m.__self__)
    return (owner, m.__name__)


@obligation('V1', props=('C17',), quick=[dict(slots=3)], thorough=[dict(slots=4)], stubs=_STUBS,
            bounds='method slots: 2 on the object + 1..2 consumers with one method each; version sets per slot from {}, {0}, {1}, {0,1}, {0,2}; the new code adds to any slot one version above every old version (finite: exhaustive enumeration by case split, not solving)')
def V1(inp, slots):
    """id stability: extending the code by replicated methods whose version exceeds every version of the old code leaves
    the meaning of every old method id unchanged (same owner, same method variant)."""
    old = {}
    for s in SLOTS[:slots]:
        vs = VSETS[inp.choice('old_%d_%s' % s, len(VSETS))]
        if vs:
            old[s] = list(vs)
    top = max([v for vs in old.values() for v in vs] or [0])
    new = {k: list(v) for k, v in old.items()}
    for s in SLOTS[:slots]:
        if inp.flag('add_%d_%s' % s):
            new.setdefault(s, []).append(top + 1 + (1 if s[1] == 'g' else 0))
    if inp.flag('add_new_method'):
        new[(0, 'zz')] = [top + 1]
        new[(1, 'aa')] = [top + 2]
    # consumers must exist in both codes with the same positions
    for s in SLOTS[:slots]:
        if s[0] != 0:
            old.setdefault(s, old.get(s, []))
            new.setdefault(s, new.get(s, []))
    o1, c1, _ = _build(old, inp, 'O')
    o2, c2, _ = _build(new, inp, 'N')
    cl = {}
    ids_old = {i: _ident(o1, c1, m) for i, m in o1._idToMethod.items()}
    ids_new = {i: _ident(o2, c2, m) for i, m in o2._idToMethod.items()}
    cl['old_ids_keep_their_meaning'] = all(ids_new.get(i) == ident for i, ident in ids_old.items())
    cl['ids_dense_and_unique'] = sorted(ids_new) == list(range(len(ids_new))) and len(set(ids_new.values())) == len(ids_new)
    cl['own_version_is_max'] = get(o2, 'selfCodeVersion') == max([v for vs in new.values() for v in vs] or [0])
    return Res(cl, nontrivial=len(ids_new) > len(ids_old) and len(ids_old) > 0,
               obs=lambda: dict(old=show(sorted(ids_old.items())), new=show(sorted(ids_new.items()))))


@obligation('V2', props=('C17',), quick=[dict()], stubs=_STUBS,
            bounds='object method f with versions from {0},{1},{0,1},{0,2},{1,3},{0,1,3},{0,2,10},{0,9,10,11} (two-digit versions included), consumer method h likewise; enabled version symbolic 0..12')
def V2(inp):
    """dispatch: with the cluster's enabled version v (symbolic), a call of f is packed with the id of the variant with the
    greatest version <= v, on the object and on consumers; methods with no variant <= v are not callable."""
    sets = ([0], [1], [0, 1], [0, 2], [1, 3], [0, 1, 3], [0, 2, 10], [0, 9, 10, 11])
    fv = sets[inp.choice('fvers', len(sets))]
    hv = sets[inp.choice('hvers', len(sets))]
    o, cons, tr = _build({(0, 'f'): fv, (1, 'h'): hv}, inp, 'D')
    v = inp.int('enabled', 0, 12)
    _, exc = guard(getattr(o, so.P + 'onSetCodeVersion'), v)
    cl = {'no_exception': exc is None}
    seen = []
    o._applyCommand = lambda command, callback, commandType=None: seen.append(command)
    for owner, name, vers, target in ((0, 'f', fv, o), (1, 'h', hv, cons[0])):
        best = None
        for x in sorted(vers):
            if bool(x <= v):
                best = x
        del seen[:]
        _, e2 = guard(getattr(target, name), 1)
        if best is None:
            cl['%s_not_callable_before_its_first_version' % name] = e2 is not None and not seen
        else:
            cl['%s_call_ok' % name] = e2 is None and len(seen) == 1
            if e2 is None and len(seen) == 1:
                fid = so_mod.pickle.loads(seen[0])[0]
                m = o._idToMethod[fid]
                cl['%s_resolves_to_greatest_version_le_enabled' % name] = (m.__name__ == '%s_v%d' % (name, best)) and (m.__self__ is target)
    return Res(cl, nontrivial=True, obs=lambda: dict(fvers=fv, hvers=hv, enabled=show(v)))


@obligation('V3', props=('C17',), quick=[dict()], stubs=_STUBS, bounds='own version 0..3, enabled version symbolic 0..3 (<= own), requested version 0..4')
def V3(inp):
    """setCodeVersion(x) is rejected (raises, nothing queued) iff x exceeds the node's own code version or is below the
    enabled version; otherwise exactly one VERSION command carrying x is queued."""
    own = inp.choice('own', 4)
    o, cons, tr = _build({(0, 'f'): sorted(set([0, own]))}, inp, 'S')
    en = inp.int('enabled', 0, 3)
    inp.assume(en <= own)
    put(o, 'enabledCodeVersion', en)
    x = inp.choice('req', 5)
    seen = []
    o._applyCommand = lambda command, callback, commandType=None: seen.append((command, commandType))
    _, exc = guard(o.setCodeVersion, x)
    bad = Or(x > own, x < en)
    cl = {'rejected_iff_unsupported_or_lower': Iff(bad, exc is not None)}
    cl['queued_iff_accepted'] = Iff(Not(bad), len(seen) == 1)
    if len(seen) == 1:
        cl['command_carries_version'] = seen[0][1] == so_mod._COMMAND_TYPE.VERSION and so_mod.pickle.loads(seen[0][0]) == x
    return Res(cl, nontrivial=True, obs=lambda: dict(own=own, req=x, enabled=show(en), exc=show(exc)))


from pvf.obligations.apply import Acc, Rec, _seq_matches, _seq_prefix       # noqa: E402


class Acc2(Acc):
    """Acc with a second code version (own code version 2)"""

    @replicated(ver=2)
    def add(self, x):
        self.total = self.total + x
        self.seq.append(('add', x))
        return self.total


@obligation('V4', props=('C17', 'C01', 'C12'), quick=[dict(pos=0), dict(pos=1), dict(pos=1, own=2)], thorough=[dict(pos=p, own=o) for p in (0, 1, 2) for o in (0, 2)],
            stubs=_STUBS + ('pysyncobj.syncobj.pickle=FakePickle',),
            bounds='committed batch of 3 entries: a VERSION entry (requested version symbolic 0..3) at position pos, add(x) before/after it; own code version 0 or 2, enabled version symbolic 0..own; two ticks')
def V4(inp, pos, own=0):
    """a node that lacks an enabled version stops applying: nothing at or after an unsupported VERSION entry is applied,
    the applied index stops just before it, no entry is applied twice on later ticks; a VERSION entry the node supports
    is applied like any other entry and the batch completes; it raises the enabled version, never lowers it."""
    now = inp.real('now', 0)
    seen = []

    def on_switch(old, new):
        # what the application sees inside its callback: the enabled version and the implementation a call made now would use
        seen.append((old, new, o.getCodeVersion(), o._getFuncName('add')))
    o, tr = so.make('a', ['b', 'c'], so.Clock(now), inp, cls=Acc2 if own == 2 else Acc, onCodeVersionChanged=on_switch)
    cmds.install(inp)
    w = inp.int('wanted', 0, 3)
    en = inp.int('enabled', 0, own) if own else 0
    if own:
        en = en.concretize() if core.is_sym(en) else en
        getattr(o, so.P + 'onSetCodeVersion')(en)
        put(o, 'enabledCodeVersion', en)
    xs = [inp.int('x%d' % i, 1, 5) for i in range(3)]
    add_id = o._methodToID['add_v0']
    entries = []
    for i in range(3):
        if i == pos:
            entries.append(cmds.version(inp, w))
        else:
            entries.append(cmds.regular(inp, add_id, (xs[i],)))
    log = [(so.NOOP, 1, 0)] + [(entries[i], 2 + i, 1) for i in range(3)]
    so.set_log(o, log)
    put(o, 'raftCurrentTerm', 1); put(o, 'raftCommitIndex', 4); put(o, 'raftLastApplied', 1)
    put(o, 'raftElectionDeadline', now + 100)
    recs = []
    wc = get(o, 'commandsWaitingCommit')
    for i in range(3):
        r = Rec('e%d' % i)
        wc[2 + i].append((1, r))
        recs.append(r)
    _, exc = guard(o._onTick, 0.0)
    _, exc2 = guard(o._onTick, 0.0)
    applied = o.raftLastApplied
    unsupported = w > own
    cl = {'no_exception': exc is None and exc2 is None}
    adds = [(i, xs[i]) for i in range(3) if i != pos]
    before = [(True, x) for i, x in adds if i < pos]
    after_ = [(Not(unsupported), x) for i, x in adds if i > pos]
    cl['entries_before_and_after'] = _seq_matches(o.seq, before + after_)
    cl['applied_index_stops_before_unsupported_version'] = Eq(applied, Ite(unsupported, 1 + pos, 4))
    # C17: a request for a lower version than the enabled one is rejected wherever it ends up in the common sequence (two requests
    # submitted concurrently each pass the submitter's local check): the enabled version never decreases
    cl['enabled_version'] = Eq(o.getCodeVersion(), Ite(unsupported, en, core.Max(en, w)))
    # inside onCodeVersionChanged the switch is complete: version and name table agree (a migration step issued from the callback
    # must run the new implementation)
    cl['switch_complete_when_the_application_is_told'] = all(v == new and name == 'add_v%d' % max(x for x in ((0, 2) if own == 2 else (0,)) if x <= new)
                                                             for old, new, v, name in seen)
    cl['callbacks_only_for_applied_entries_once'] = And([Iff(Or(i < pos, Not(unsupported)), len(r.calls) == 1) if len(r.calls) <= 1 else False for i, r in enumerate(recs)])
    return Res(cl, nontrivial=unsupported, obs=lambda: dict(pos=pos, own=own, enabled=show(en), wanted=show(w), seq=show(o.seq), applied=show(applied),
                                                            calls=[len(r.calls) for r in recs], exc=show(exc)), vars=dict(unsupported=unsupported))


@obligation('V5', props=('C17', 'C09'), quick=[dict(), dict(custom=True)], stubs=_STUBS + ('real Serializer: in memory (gzip + pickle), or a user serializer/deserializer pair that stores the opaque data it is handed in a real temporary file',),
            bounds='f with versions {0,1}, {0,2}, {0,1,3}; enabled version 0..3 (enumerated: the snapshot goes through the real pickle); built-in or user-supplied serializer')
def V5(inp, custom=False):
    """after loading a snapshot taken after a version switch, the enabled version and the name table agree: a call uses the
    newest implementation not above the restored enabled version."""
    sets = ([0, 1], [0, 2], [0, 1, 3])
    fv = sets[inp.choice('fvers', len(sets))]
    en = inp.choice('enabled', 4)
    inp.assume(en <= max(fv))
    conf = {}
    if custom:
        import tempfile, os, shutil
        d = tempfile.mkdtemp(prefix='pvf-v5-')
        try:
            return _v5(inp, fv, en, dict(fullDumpFile=os.path.join(d, 'dump'), useFork=False,
                                         serializer=lambda fn, data: open(fn, 'wb').write(cmds.real_pickle.dumps(('user state', data))),
                                         deserializer=lambda fn: cmds.real_pickle.loads(open(fn, 'rb').read())[1]), custom)
        finally:
            shutil.rmtree(d, ignore_errors=True)
    return _v5(inp, fv, en, conf, custom)


def _v5(inp, fv, en, conf, custom):
    a, _, _ = _build({(0, 'f'): fv}, inp, 'A', **conf)
    b, _, _ = _build({(0, 'f'): fv}, inp, 'B', **conf)
    ver_cmd = so_mod._bchr(so_mod._COMMAND_TYPE.VERSION) + so_mod.pickle.dumps(en)
    so_mod.pickle = cmds.real_pickle
    _, exc = guard(getattr(a, so.P + 'doApplyCommand'), ver_cmd)
    so.set_log(a, [(so.NOOP, 1, 0), (ver_cmd, 2, 0), (so.NOOP, 3, 0)])
    put(a, 'raftCommitIndex', 3); put(a, 'raftLastApplied', 3)
    a.forceLogCompaction()
    _, exc1 = guard(getattr(a, so.P + 'tryLogCompaction'))
    ser_a, ser_b = get(a, 'serializer'), get(b, 'serializer')
    if custom:
        import os
        taken = os.path.exists(conf['fullDumpFile'])
        if taken:
            import shutil
            shutil.copy(conf['fullDumpFile'], conf['fullDumpFile'] + '.1.tmp')           # as received from a
            ser_b._Serializer__incomingTransmissionData = conf['fullDumpFile'] + '.1.tmp'
    else:
        ser_b._Serializer__incomingTransmissionData = ser_a._Serializer__inMemorySerializedData
        taken = ser_a._Serializer__inMemorySerializedData is not None
    _, exc2 = guard(getattr(b, so.P + 'loadDumpFile'), True)
    best = max(x for x in fv if x <= en)
    cl = {'no_exception': exc is None and exc1 is None and exc2 is None}
    cl['snapshot_taken'] = taken
    cl['enabled_version_restored'] = b.getCodeVersion() == en
    name, e3 = guard(b._getFuncName, 'f')
    cl['name_table_matches_restored_version'] = e3 is None and name == 'f_v%d' % best
    cl['source_node_consistent'] = a._getFuncName('f') == 'f_v%d' % best
    return Res(cl, nontrivial=en > 0, obs=lambda: dict(fvers=fv, enabled=en, custom=custom, restored=b.getCodeVersion(), name=name, exc=show(exc2)))


@obligation('V6', props=('C17', 'C12', 'C01'), quick=[dict()], stubs=_STUBS + ('pysyncobj.syncobj.pickle=FakePickle', 'real in-memory Serializer (gzip + pickle) for the snapshot'),
            bounds='a node whose code lacks version 1 is blocked at a committed VERSION(1) entry; a snapshot taken behind that entry (state value symbolic) is installed; one more add(x) is committed')
def V6(inp):
    """stopping at an unsupported version is not for ever: a node that was blocked at a VERSION entry and is then moved past it
    by a snapshot from the leader goes on applying what is committed after the snapshot (every tick, exactly once)."""
    import pysyncobj.serializer as ser_mod
    now = inp.real('now', 0)
    o, tr = so.make('a', ['b', 'c'], so.Clock(now), inp, cls=Acc)
    cmds.install(inp)
    add_id = o._methodToID['add_v0']
    x1, x2, s0 = inp.int('x1', 1, 5), inp.int('x2', 1, 5), inp.choice('snapshot_total', 4) + 10
    so.set_log(o, [(so.NOOP, 1, 0), (cmds.version(inp, 1), 2, 1), (cmds.regular(inp, add_id, (x1,)), 3, 1)])
    put(o, 'raftCurrentTerm', 1); put(o, 'raftCommitIndex', 3); put(o, 'raftLastApplied', 1)
    put(o, 'raftElectionDeadline', now + 100)
    _, exc = guard(o._onTick, 0.0)
    blocked = o.raftLastApplied
    # the leader's snapshot of position 4 arrives and is installed (real gzip + pickle)
    scratch = ser_mod.Serializer(None, 1 << 20, False, None, None, None)
    newer = inp.flag('snapshot_taken_after_the_switch')       # it then carries enabled version 1, which this node's code lacks
    scratch.serialize(({'total': s0, 'seq': []}, (so.NOOP, 4, 1), (so.NOOP, 3, 1), set([Node('a'), Node('b'), Node('c')]), 1 if newer else 0), 3)
    get(o, 'serializer')._Serializer__incomingTransmissionData = scratch._Serializer__inMemorySerializedData
    _, exc1 = guard(getattr(o, so.P + 'loadDumpFile'), True)
    log = get(o, 'raftLog')
    if not newer:
        log.add(cmds.regular(inp, add_id, (x2,)), 5, 1)
        put(o, 'raftCommitIndex', 5)
    _, exc2 = guard(o._onTick, 0.0)
    _, exc3 = guard(o._onTick, 0.0)
    cl = {'no_exception': exc is None and exc1 is None and exc2 is None and exc3 is None}
    cl['blocked_before_the_version_entry'] = blocked == 1
    if newer:
        # C17: a node that lacks the enabled version stops applying rather than misapplying - also when a snapshot comes along
        cl['snapshot_of_a_newer_version_refused'] = And(o.raftLastApplied == 1, o.getCodeVersion() == 0, Eq(o.total, 0))
    else:
        cl['snapshot_installed'] = o.raftLastApplied >= 4
        cl['goes_on_applying_after_the_snapshot'] = And(o.raftLastApplied == 5, Eq(o.total, s0 + x2))
    return Res(cl, nontrivial=True, obs=lambda: dict(blocked=blocked, applied=o.raftLastApplied, total=show(o.total), exc=[show(e) for e in (exc, exc1, exc2, exc3)]))
