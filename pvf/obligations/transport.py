"""C14 (step lemmas): the real TCPTransport and TcpConnection on symbolic sockets / virtual time --
who dials (N1), incoming handshake and source attribution (N2), dropNode (N3), reconnect throttle (N4),
read timeout and truthful send() (N5/N6)."""
import socket as realsocket

from pvf.core import And, Or, Not, Implies, Iff, Eq, Ite
from pvf.registry import obligation, Res
from pvf import so, core
from pvf.so import guard, show
from pvf.obligations import tcp as T
import pysyncobj.tcp_connection as tc
import pysyncobj.transport as tp
from pysyncobj.transport import TCPTransport
from pysyncobj.tcp_connection import TcpConnection, CONNECTION_STATE
from pysyncobj.node import TCPNode, Node
from pysyncobj.config import SyncObjConf
from pysyncobj.poller import POLL_EVENT_TYPE

_STUBS = T._STUBS + ('the SyncObj behind the transport is a minimal stand-in (conf, poller, tick-callback registry); the TCP server is created but never bound',
                     'monotonicTime of transport and tcp_connection = symbolic clock', 'DNS: addresses are literal IPs')
ADDRS = ('10.0.0.1:5000', '10.0.0.2:5000', '10.0.0.10:5000', '10.0.0.2:4999', '9.0.0.1:80')


class FakeSyncObj:
    def __init__(self, **confkw):
        self.conf = SyncObjConf(autoTick=False, **confkw)
        self._poller = T.FakePoller()
        self.encryptor = None
        self.ticks = []

    def addOnTickCallback(self, cb):
        self.ticks.append(cb)


class Events:
    def __init__(self, tr):
        self.msgs, self.conn, self.disc, self.roconn, self.rodisc = [], [], [], [], []
        tr.setOnMessageReceivedCallback(lambda n, m: self.msgs.append((n, m)))
        tr.setOnNodeConnectedCallback(self.conn.append)
        tr.setOnNodeDisconnectedCallback(self.disc.append)
        tr.setOnReadonlyNodeConnectedCallback(self.roconn.append)
        tr.setOnReadonlyNodeDisconnectedCallback(self.rodisc.append)


def _clock(inp, now):
    c = so.Clock(now)
    tc.monotonicTime = c
    tp.monotonicTime = c
    return c


CODEC = [None]


def _transport(inp, selfaddr, others, now, **confkw):
    CODEC[0] = T.install(inp)
    clk = _clock(inp, now)
    sm = T._SockMod(inp)
    tc.socket = sm
    fso = FakeSyncObj(**confkw)
    tr = TCPTransport(fso, TCPNode(selfaddr) if selfaddr else None, [TCPNode(a) for a in others])
    return tr, fso, sm, clk, Events(tr)


def _incoming(inp, fso, tr, name):
    s = T.SymSocket(inp, name)
    s.peer = T.SymSocket(inp, name + 'p')
    conn = TcpConnection(fso._poller, socket=s, keepalive=None, timeout=fso.conf.connectionTimeout)
    tr._onNewIncomingConnection(conn)
    return conn


def _deliver(conn, message):
    """what the connection's parse loop does with a decoded message"""
    cb = getattr(conn, '_TcpConnection__onMessageReceived')
    return guard(cb, message)


@obligation('N1', props=('C14',), quick=[dict()], stubs=_STUBS, bounds='every ordered pair of 5 addresses (different hosts, ports, string lengths); finite enumeration')
def N1(inp):
    """who dials: of two distinct members exactly one initiates the connection; a read-only node always dials; nobody dials a
    node that is being dropped."""
    i, j = inp.choice('a', len(ADDRS)), inp.choice('b', len(ADDRS))
    inp.assume(i != j)
    now = 0.0
    ta, _, _, _, _ = _transport(inp, ADDRS[i], [ADDRS[j]], now)
    tb, _, _, _, _ = _transport(inp, ADDRS[j], [ADDRS[i]], now)
    tro, _, _, _, _ = _transport(inp, None, [ADDRS[j]], now)
    da, db = ta._shouldConnect(TCPNode(ADDRS[j])), tb._shouldConnect(TCPNode(ADDRS[i]))
    tc.socket = realsocket
    cl = {'exactly_one_side_dials': da != db,
          'readonly_always_dials': tro._shouldConnect(TCPNode(ADDRS[j])) is True,
          'dialler_has_a_connection_object': (TCPNode(ADDRS[j]) in ta._connections) == da}
    return Res(cl, nontrivial=True, obs=lambda: dict(a=ADDRS[i], b=ADDRS[j], a_dials=da, b_dials=db))


FIRST = ('member', 'nonmember', 'removed', 'readonly', 'garbage_int', 'garbage_list', 'utility_unknown', 'empty_list', 'garbage_dict')


@obligation('N2', props=('C14', 'C18', 'C10'), quick=[dict()], stubs=_STUBS,
            bounds='one accepting node with 2 dialling members (one of which may have been dropped before - having connected earlier or never), first message of an incoming connection from 7 kinds, followed by one protocol message; up to 3 read-only peers joining / leaving / re-joining')
def N2(inp):
    """incoming handshake: a connection is attributed to a member only if its first message is that member's address; an
    unknown, removed or malformed identity is disconnected, never reported connected and nothing it sends is delivered; later
    messages are delivered with exactly that member as source; every connected read-only peer has its own identity."""
    now = inp.real('now', 0)
    me, m1, m2 = '10.0.0.1:5000', '10.0.0.2:5000', '10.0.0.3:5000'        # both members dial us (larger addresses)
    tr, fso, sm, clk, ev = _transport(inp, me, [m1, m2], now)
    cl = {}
    drop_first = inp.flag('m2_dropped')
    if drop_first:
        if inp.flag('m2_had_connected'):
            c0 = _incoming(inp, fso, tr, 'old')
            _deliver(c0, m2)
        _, e = guard(tr.dropNode, TCPNode(m2))
        cl['drop_no_exception'] = e is None
    n_conn0, n_msgs0 = len(ev.conn), len(ev.msgs)
    kind = FIRST[inp.choice('first', len(FIRST))]
    conn = _incoming(inp, fso, tr, 'in')
    first = {'member': m1, 'nonmember': '10.9.9.9:1', 'removed': m2, 'readonly': 'readonly', 'garbage_int': 7,
             'garbage_list': [1, 2], 'utility_unknown': ['nosuchcommand', 1], 'empty_list': [], 'garbage_dict': {'a': 1}}[kind]
    _, exc = guard(tr._onIncomingMessageReceived, conn, first)
    accepted_member = kind == 'member' or (kind == 'removed' and not drop_first)
    hashable = True      # (lists, dicts and empty lists that are no known utility command are strangers like any other)
    cl['handshake_no_exception'] = exc is None or not hashable
    payload = {'type': 'request_vote', 'term': 5, 'last_log_index': 1, 'last_log_term': 0}
    _, exc2 = _deliver(conn, payload) if conn.state == CONNECTION_STATE.CONNECTED else (None, None)
    cl['later_message_no_exception'] = exc2 is None or not hashable
    new_msgs = ev.msgs[n_msgs0:]
    if accepted_member:
        who = TCPNode(m1 if kind == 'member' else m2)
        cl['member_reported_connected_once'] = ev.conn[n_conn0:] == [who]
        cl['registered_under_that_member'] = tr._connections.get(who) is conn and conn not in tr._unknownConnections
        cl['messages_attributed_to_that_member'] = new_msgs == [(who, payload)]
    elif kind == 'readonly':
        cl['readonly_reported'] = len(ev.roconn) == 1 and len(ev.conn) == n_conn0
        cl['messages_attributed_to_the_readonly_peer'] = len(new_msgs) == 1 and new_msgs[0][0] == ev.roconn[0] and not isinstance(new_msgs[0][0], TCPNode)
    else:
        cl['stranger_disconnected'] = conn.state == CONNECTION_STATE.DISCONNECTED or not hashable
        cl['stranger_never_reported'] = len(ev.conn) == n_conn0 and len(ev.roconn) == 0
        cl['nothing_delivered_from_stranger'] = new_msgs == []
        cl['stranger_not_registered'] = conn not in tr._connections.values() and (conn not in tr._unknownConnections or not hashable)
    tc.socket = realsocket
    return Res(cl, nontrivial=True, obs=lambda: dict(kind=kind, dropped=drop_first, state=conn.state, conn=[str(x) for x in ev.conn], msgs=len(new_msgs), exc=show(exc)))


@obligation('N2r', props=('C14', 'C18'), quick=[dict(k=4)], thorough=[dict(k=5), dict(k=6)], stubs=_STUBS,
            bounds='k<=5 events over 3 read-only peers: join, leave, message - in any order (case split)')
def N2r(inp, k):
    """read-only peers: at any time every connected read-only peer has its own node identity and its own connection - joins,
    leaves and re-joins in any order never make two peers share an identity, and a message is delivered as coming from its sender."""
    now = inp.real('now', 0)
    tr, fso, sm, clk, ev = _transport(inp, '10.0.0.1:5000', ['10.0.0.2:5000'], now)
    conns = {}                  # peer -> connection
    ident = {}                  # peer -> node reported at join
    cl, trace = {}, []
    ok_attr, ok_unique, exc = True, True, None
    for step in range(k):
        peer = inp.choice('peer%d' % step, 3)
        if peer not in conns:
            c = _incoming(inp, fso, tr, 'ro%d_%d' % (peer, step))
            n0 = len(ev.roconn)
            _, exc = guard(tr._onIncomingMessageReceived, c, 'readonly')
            if exc is not None or len(ev.roconn) != n0 + 1:
                ok_unique = False
                break
            conns[peer], ident[peer] = c, ev.roconn[-1]
            trace.append(('join', peer, str(ident[peer])))
        elif inp.flag('leave%d' % step):
            _, exc = guard(conns[peer].disconnect)
            del conns[peer], ident[peer]
            trace.append(('leave', peer))
        else:
            n0 = len(ev.msgs)
            msg = {'type': 'apply_command', 'command': b'x', 'from': peer}
            _, exc = _deliver(conns[peer], msg)
            ok_attr = ok_attr and ev.msgs[n0:] == [(ident[peer], msg)]
            trace.append(('msg', peer))
        if exc is not None:
            break
        ids = [ident[p_] for p_ in conns]
        ok_unique = ok_unique and len(set(x.id for x in ids)) == len(ids) and all(tr._connections.get(ident[p_]) is conns[p_] for p_ in conns)
    tc.socket = realsocket
    cl['no_exception'] = exc is None
    cl['identities_unique_and_bound_to_their_connection'] = ok_unique
    cl['messages_attributed_to_sender'] = ok_attr
    return Res(cl, nontrivial=len(trace) >= 3, obs=lambda: dict(trace=trace))


@obligation('N3', props=('C14', 'C10'), quick=[dict()], stubs=_STUBS, bounds='dialling or accepting side; the dropped member connected, connecting, disconnected or never connected; then a tick')
def N3(inp):
    """dropNode: the connection is closed, the member is forgotten (no address, no retry state), no reconnect is attempted on
    the next tick, and no disconnect notification is lost or duplicated."""
    now = inp.real('now', 0)
    dial = inp.flag('we_dial')
    me, other = ('10.0.0.9:5000', '10.0.0.2:5000') if dial else ('10.0.0.1:5000', '10.0.0.2:5000')
    tr, fso, sm, clk, ev = _transport(inp, me, [other], now)
    node = TCPNode(other)
    state = inp.choice('state', 3)     # 0 never connected, 1 connected, 2 connected then lost
    if dial:
        if state >= 1:
            tr._connectIfNecessarySingle(node)
            guard(getattr(tr._connections[node], '_TcpConnection__processConnection'), 7, POLL_EVENT_TYPE.WRITE)
        if state == 2:
            guard(tr._connections[node].disconnect)
    else:
        if state >= 1:
            c = _incoming(inp, fso, tr, 'in')
            _deliver(c, other)
        if state == 2:
            guard(c.disconnect)
    was_connected = state == 1
    nd0 = len(ev.disc)
    n_sock = len(sm.made)
    _, exc = guard(tr.dropNode, node)
    _, exc2 = guard(tr._onTick)
    tc.socket = realsocket
    cl = {'no_exception': exc is None and exc2 is None}
    cl['forgotten'] = node not in tr._nodes and other not in tr._nodeAddrToNode and node not in tr._connections and node not in tr._lastConnectAttempt
    cl['no_reconnect_after_drop'] = len(sm.made) == n_sock
    cl['disconnect_notified_iff_it_was_connected'] = len(ev.disc) - nd0 == (1 if was_connected else 0)
    return Res(cl, nontrivial=True, obs=lambda: dict(dial=dial, state=state, disc=len(ev.disc) - nd0, socks=len(sm.made) - n_sock))


@obligation('N4', props=('C14',), quick=[dict()], stubs=_STUBS, bounds='symbolic clock, last-attempt time and connectionRetryTime; connection disconnected / connecting / connected')
def N4(inp):
    """reconnect throttle: a tick dials a disconnected peer iff this side is the dialler and the last attempt is at least
    connectionRetryTime old (or there was none); it never dials while a connection attempt or a connection exists."""
    now = inp.real('now', 0)
    retry = inp.real('retry', 0)
    tr, fso, sm, clk, ev = _transport(inp, '10.0.0.9:5000', ['10.0.0.2:5000'], now, connectionRetryTime=5.0)
    fso.conf.connectionRetryTime = retry
    node = TCPNode('10.0.0.2:5000')
    has_last = inp.flag('has_last')
    last = inp.real('last')
    inp.assume(last <= now)
    if has_last:
        tr._lastConnectAttempt[node] = last
    state = inp.choice('state', 3)
    conn = tr._connections[node]
    if state == 1:
        setattr(conn, '_TcpConnection__state', CONNECTION_STATE.CONNECTING)
    elif state == 2:
        setattr(conn, '_TcpConnection__state', CONNECTION_STATE.CONNECTED)
    n0 = len(sm.made)
    _, exc = guard(tr._onTick)
    tc.socket = realsocket
    dialled = len(sm.made) > n0
    due = Or(not has_last, now - last >= retry)
    cl = {'no_exception': exc is None}
    cl['dials_iff_disconnected_and_due'] = Iff(dialled, And(state == 0, due))
    cl['attempt_time_recorded'] = Implies(dialled, Eq(tr._lastConnectAttempt.get(node), now))
    return Res(cl, nontrivial=dialled, obs=lambda: dict(state=state, has_last=has_last, dialled=dialled))


@obligation('N5', props=('C14', 'C13'), quick=[dict(via='send'), dict(via='poll_read'), dict(via='poll_write')], stubs=_STUBS,
            bounds='symbolic clock, last-read instant and connection timeout (unbounded reals); a connected member connection')
def N5(inp, via):
    """read timeout and truthful send(): a connection whose peer has been silent for more than the timeout while it was being sent to
    is closed at the next send or writable event and the disconnect notification fires exactly once; a link that was idle in both
    directions is not torn down at its first use (neither by the first send nor by the first data arriving); send() returns True only if the connection is
    connected before and after; a connection within its timeout stays up."""
    now = inp.real('now', 0)
    timeout = inp.real('timeout', 0, lo_strict=True)
    tr, fso, sm, clk, ev = _transport(inp, '10.0.0.1:5000', ['10.0.0.2:5000'], now)
    node = TCPNode('10.0.0.2:5000')
    c = _incoming(inp, fso, tr, 'in')
    _deliver(c, '10.0.0.2:5000')
    setattr(c, '_TcpConnection__timeout', timeout)
    last = inp.real('last_read')
    inp.assume(last <= now)
    setattr(c, '_TcpConnection__lastReadTime', last)
    last_send = inp.real('last_send')
    inp.assume(last_send <= now)
    setattr(c, '_TcpConnection__lastSendTime', last_send)
    silent = now - last > timeout
    # nothing sent for longer than the timeout either: no answer was due, the link was simply idle (two followers of a living leader)
    idle = now - last_send > timeout
    T_codec = CODEC[0]
    T_codec.lengths[0] = inp.int('L0', 1, 1000)
    nd0 = len(ev.disc)
    if via == 'send':
        res, exc = guard(tr.send, node, 0)
    else:
        res, exc = guard(getattr(c, '_TcpConnection__processConnection'), 7, POLL_EVENT_TYPE.READ if via == 'poll_read' else POLL_EVENT_TYPE.WRITE)
    tc.socket = realsocket
    up = c.state == CONNECTION_STATE.CONNECTED
    cl = {'no_exception': exc is None}
    if via == 'send':
        # the first message after mutual silence starts the clock; a peer that stays silent while it is being sent to is dropped
        cl['closed_iff_silent_while_being_sent_to'] = Iff(And(silent, Not(idle)), not up)
    elif via == 'poll_read':
        # whatever arrives proves the peer alive (the harness's socket has nothing to read: EAGAIN, no EOF)
        cl['readable_connection_not_closed_for_silence'] = up
    else:
        cl['closed_iff_silent_too_long'] = Iff(silent, not up)
    cl['disconnect_notified_once_iff_closed'] = (len(ev.disc) - nd0) == (0 if up else 1)
    if via == 'send':
        cl['send_result_truthful'] = (res is True) == up
    return Res(cl, nontrivial=silent, obs=lambda: dict(via=via, up=up, res=show(res), disc=len(ev.disc) - nd0))


@obligation('N6', props=('C14',), quick=[dict()], stubs=_STUBS,
            bounds='accepting side; a member whose connection went stale dials again and completes the handshake; the old connection then dies by error event, read timeout or explicit close (case split); symbolic clock')
def N6(inp):
    """stale connection replaced by a new incoming one: after the member has re-dialled and identified itself, the death of the
    old connection does not report the member disconnected, the member stays reachable (send() true, messages delivered with it as
    source) and exactly one connection is registered for it."""
    now = inp.real('now', 0)
    me, m1 = '10.0.0.1:5000', '10.0.0.2:5000'
    tr, fso, sm, clk, ev = _transport(inp, me, [m1], now)
    node = TCPNode(m1)
    old = _incoming(inp, fso, tr, 'old')
    _deliver(old, m1)
    new = _incoming(inp, fso, tr, 'new')
    _, exc = _deliver(new, m1)
    nd0, nc0 = len(ev.disc), len(ev.conn)
    how = inp.choice('old_dies_by', 3)
    if how == 0:
        _, exc2 = guard(getattr(old, '_TcpConnection__processConnection'), 7, POLL_EVENT_TYPE.ERROR)
    elif how == 1:
        setattr(old, '_TcpConnection__lastReadTime', now - 10000)
        _, exc2 = guard(getattr(old, '_TcpConnection__processConnection'), 7, POLL_EVENT_TYPE.WRITE)      # (the silence check runs on events that bring no data)
    else:
        _, exc2 = guard(old.disconnect)
    CODEC[0].lengths[0] = inp.int('L0', 1, 1000)
    res, exc3 = guard(tr.send, node, 0)
    msg = {'type': 'next_node_idx', 'next_node_idx': 3, 'reset': False, 'success': True}
    n0 = len(ev.msgs)
    _, exc4 = _deliver(new, msg)
    tc.socket = realsocket
    cl = {'no_exception': exc is None and exc2 is None and exc3 is None and exc4 is None}
    cl['member_not_reported_disconnected'] = len(ev.disc) == nd0
    cl['current_connection_registered'] = tr._connections.get(node) is new and new.state == CONNECTION_STATE.CONNECTED
    cl['old_connection_closed'] = old.state == CONNECTION_STATE.DISCONNECTED
    cl['send_still_works'] = res is True
    cl['messages_attributed_to_the_member'] = ev.msgs[n0:] == [(node, msg)]
    return Res(cl, nontrivial=True, obs=lambda: dict(how=how, disc=len(ev.disc) - nd0, res=show(res)))


@obligation('N7', props=('C14',), quick=[dict()], stubs=_STUBS + ('socket.connect() outcome: immediate success, EINPROGRESS, or a synchronous error (case split)',),
            bounds='dialling side; outcome of the non-blocking connect() call from 4 kinds; then a tick at a symbolic later instant')
def N7(inp):
    """failed dial: a connect() that fails synchronously leaves the connection object disconnected (not half-open), nothing
    subscribed, and the peer is re-dialled at the first tick at least connectionRetryTime later; a connect in progress is not
    re-dialled."""
    now = inp.real('now', 0)
    tr, fso, sm, clk, ev = _transport(inp, '10.0.0.9:5000', ['10.0.0.2:5000'], now, connectionRetryTime=5.0)
    node = TCPNode('10.0.0.2:5000')
    outcome = ('ok', 'inprogress', 'unreachable', 'refused_sync')[inp.choice('outcome', 4)]
    import errno as _errno

    def connect_(addr):
        if outcome == 'ok':
            return
        e = realsocket.error()
        e.errno = {'inprogress': _errno.EINPROGRESS, 'unreachable': _errno.ENETUNREACH, 'refused_sync': _errno.ECONNREFUSED}[outcome]
        raise e
    T.SymSocket.connect = lambda self, addr: connect_(addr)
    try:
        _, exc = guard(tr._onTick)
        conn = tr._connections[node]
        n1 = len(sm.made)
        failed = outcome in ('unreachable', 'refused_sync')
        state1 = conn.state
        later = inp.real('later', 0)
        clk.now = now + later
        _, exc2 = guard(tr._onTick)
        redialled = len(sm.made) > n1
    finally:
        T.SymSocket.connect = lambda self, addr: None
        tc.socket = realsocket
    cl = {'no_exception': exc is None and exc2 is None}
    cl['dialled_once_at_first_tick'] = n1 == 1
    cl['state_after_connect'] = (state1 == CONNECTION_STATE.DISCONNECTED) if failed else (state1 == CONNECTION_STATE.CONNECTING)
    cl['subscribed_iff_in_progress'] = (7 in fso._poller.subs) == (not failed)
    cl['redial_iff_failed_and_retry_time_elapsed'] = Iff(redialled, And(failed, later >= 5.0))
    return Res(cl, nontrivial=failed, obs=lambda: dict(outcome=outcome, state=state1, redialled=redialled))


@obligation('N8', props=('C14',), quick=[dict()], stubs=_STUBS + ('the first send() on the freshly connected socket fails with ECONNRESET / EPIPE or succeeds (case split)',),
            bounds='dialling side; connect completes (writable, SO_ERROR 0); the handshake write fails hard or not; then a tick connectionRetryTime later')
def N8(inp):
    """a connection that dies during its own handshake write is not reported as established: the object ends disconnected, the
    member is not left marked connected, and the peer is re-dialled after connectionRetryTime."""
    import errno as _errno
    now = inp.real('now', 0)
    tr, fso, sm, clk, ev = _transport(inp, '10.0.0.9:5000', ['10.0.0.2:5000'], now, connectionRetryTime=5.0)
    node = TCPNode('10.0.0.2:5000')
    _, exc = guard(tr._onTick)
    conn = tr._connections[node]
    sock = sm.made[-1]
    kind = ('ok', 'reset', 'epipe')[inp.choice('first_write', 3)]
    if kind != 'ok':
        def bad_send(buf):
            e = realsocket.error()
            e.errno = _errno.ECONNRESET if kind == 'reset' else _errno.EPIPE
            raise e
        sock.send = bad_send
    CODEC[0].lengths['10.0.0.9:5000'] = inp.int('Lhs', 1, 100)
    _, exc2 = guard(getattr(conn, '_TcpConnection__processConnection'), 7, POLL_EVENT_TYPE.WRITE)
    state1 = conn.state
    n1 = len(sm.made)
    clk.now = now + 6
    _, exc3 = guard(tr._onTick)
    tc.socket = realsocket
    failed = kind != 'ok'
    cl = {'no_exception': exc is None and exc2 is None and exc3 is None}
    cl['state_after_handshake'] = (state1 == CONNECTION_STATE.DISCONNECTED) if failed else (state1 == CONNECTION_STATE.CONNECTED)
    cl['connect_and_disconnect_notifications_balance'] = (len(ev.conn) - len(ev.disc)) == (0 if failed else 1)
    cl['redialled_iff_failed'] = (len(sm.made) > n1) == failed
    return Res(cl, nontrivial=failed, obs=lambda: dict(kind=kind, state=state1, conn=len(ev.conn), disc=len(ev.disc), socks=len(sm.made)))


@obligation('N9', props=('C14',), quick=[dict()], stubs=_STUBS + ('the send() on the established socket fails with ECONNRESET / EPIPE, or the peer has been silent for too long, or all is well (case split)',),
            bounds='dialling side with an established connection; one transport.send() at a symbolic instant, the last dial being older or younger than connectionRetryTime (the re-dial inside the disconnect '
                   'handler happens or not)')
def N9(inp):
    """truthful send() on the dialling side: when the connection dies inside send() - hard write error or read timeout - the
    transport re-dials at once if it may, so the connection object is CONNECTING afterwards, not DISCONNECTED; send() still
    answers False (the message was discarded) and the member is reported disconnected exactly once."""
    import errno as _errno
    now = inp.real('now', 0)
    tr, fso, sm, clk, ev = _transport(inp, '10.0.0.9:5000', ['10.0.0.2:5000'], now, connectionRetryTime=5.0)
    node = TCPNode('10.0.0.2:5000')
    _, exc = guard(tr._onTick)
    conn = tr._connections[node]
    sock = sm.made[-1]
    CODEC[0].lengths['10.0.0.9:5000'] = 20
    _, exc = guard(getattr(conn, '_TcpConnection__processConnection'), 7, POLL_EVENT_TYPE.WRITE)      # connect completes, handshake goes out
    established = conn.state == CONNECTION_STATE.CONNECTED
    kind = ('ok', 'reset', 'epipe', 'silent')[inp.choice('fault', 4)]
    later = (1.0, 6.0)[inp.choice('since_last_dial', 2)]           # below / above connectionRetryTime
    clk.now = now + later
    if kind in ('reset', 'epipe'):
        def bad_send(buf):
            e = realsocket.error()
            e.errno = _errno.ECONNRESET if kind == 'reset' else _errno.EPIPE
            raise e
        sock.send = bad_send
    if kind == 'silent':
        setattr(conn, '_TcpConnection__timeout', 0.5)
        setattr(conn, '_TcpConnection__lastReadTime', now)
        setattr(conn, '_TcpConnection__lastSendTime', now + later - 0.1)       # it was being sent to all the time
    nd0 = len(ev.disc)
    CODEC[0].lengths[0] = inp.int('L0', 1, 1000)
    res, exc2 = guard(tr.send, node, 0)
    tc.socket = realsocket
    failed = kind != 'ok'
    cl = {'no_exception': exc is None and exc2 is None, 'was_established': established}
    cl['send_result_truthful'] = (res is True) == (not failed)
    cl['disconnect_notified_once_iff_lost'] = (len(ev.disc) - nd0) == (1 if failed else 0)
    return Res(cl, nontrivial=failed, obs=lambda: dict(kind=kind, later=later, res=show(res), state=conn.state, disc=len(ev.disc) - nd0, socks=len(sm.made)))
