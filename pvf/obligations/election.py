"""Election step obligations E1..E4 (DESIGN section 4) on the real SyncObj handlers."""
from pvf.core import And, Or, Not, Implies, Iff, Eq, Ite
from pvf.registry import obligation, Res
from pvf import so
from pvf.so import F, C, L, get, put, guard, show, Node

IDS = 'abcde'
T_HI = 4

_N_QUICK = [dict(N=2), dict(N=3)]
_N_THOROUGH = [dict(N=n, n=k) for n in (2, 3, 4, 5) for k in (1, 2, 3)]
_STUBS = ('transport=RecTransport (public transport= parameter)', 'monotonicTime=Clock(symbolic now)',
          'random.random=fresh Real in [0,1) per call')


def _mk(inp, N, ro=False, **kw):
    now = inp.real('now', 0)
    clock = so.Clock(now)
    o, tr = so.make(None if ro else 'a', IDS[1:N] if not ro else IDS[:N], clock, inp, **kw)
    return o, tr, now


def _common(p, q, exc):
    """E2 term/vote discipline, checked on every step"""
    cl = {
        'no_exception': exc is None,
        'term_monotone': q.term >= p.term,
        'vote_kept_within_term': Implies(And(Eq(q.term, p.term), p.voted is not None), Eq(q.voted, p.voted)),
        'leader_keeps_term': Implies(And(p.role == L, q.role == L), Eq(q.term, p.term)),
        'commit_monotone': q.commit >= p.commit,
        'applied_monotone': q.applied >= p.applied,
        # WF-pres: the well-formedness facts assumed of pre-states (DESIGN 3.1) hold of the post-state again
        'wf_role_vote': Implies(q.role in (C, L), q.voted == 'a') if p.role is not None else True,
        'wf_leader_pointer': Implies(q.role == L, q.leader == Node('a')),
        'wf_leader_tables': Implies(q.role == L, all(x.id in q.next and x.id in q.match and x.id in q.resp for x in p.others)),
        'wf_applied_le_commit': q.applied <= q.commit,
        'wf_log_contiguous': And([Eq(q.log[k][1], q.log[0][1] + k) for k in range(len(q.log))] or [False]),
        'wf_terms_nondecreasing_up_to_current': And([q.log[k][2] <= q.log[k + 1][2] for k in range(len(q.log) - 1)] + [q.log[-1][2] <= q.term] if q.log else [False]),
    }
    return cl


@obligation('E1', props=('C03', 'C07', 'C18', 'C01'), quick=_N_QUICK + [dict(N=3, ro=True)],
            thorough=_N_THOROUGH + [dict(N=3, ro=True), dict(N=5, ro=True)], stubs=_STUBS,
            bounds='voters N<=5, log entries n<=3 (first index 1..3), terms 0..5, any role/vote/leader pointer, any request fields')
def E1(inp, N, n=2, ro=False):
    """vote-once: a request_vote is granted at most once per term, only to an up-to-date candidate,
    with the node's term equal to the request's; read-only nodes never answer."""
    o, tr, now = _mk(inp, N, ro)
    p = so.sym_state(inp, o, now, n, term_hi=T_HI, connected=())        # the vote handler never reads connectivity
    sender = p.others[inp.choice('sender', len(p.others))]
    mterm = inp.int('mterm', 0, T_HI + 1)
    lli = inp.int('lli', 0, 8)
    llt = inp.int('llt', 0, T_HI + 1)
    msg = {'type': 'request_vote', 'term': mterm, 'last_log_index': lli, 'last_log_term': llt}
    _, exc = guard(getattr(o, so.P + 'onMessageReceived'), sender, msg)
    q = so.post_state(o)
    grants = tr.of_type('response_vote')
    granted = len(grants) > 0
    cl = _common(p, q, exc)
    cl['only_reply_is_one_grant_to_requester'] = len(tr.sent) == len(grants) and len(grants) <= 1 and all(nd == sender for nd, _ in tr.sent)
    cl['log_untouched'] = And(so.logs_equal(p.log, q.log), Eq(q.commit, p.commit), Eq(q.applied, p.applied))
    cl['newer_term_steps_down'] = Implies(And(not ro, mterm > p.term), q.role == F)
    if ro:
        cl['readonly_never_votes'] = And(not granted, Eq(q.term, p.term), q.voted is None, q.role == F)
    if granted:
        g = grants[0]
        cl['grant_term'] = And(Eq(g['term'], mterm), Eq(q.term, mterm))
        cl['grant_once_per_term'] = Or(p.voted is None, p.term < mterm, p.voted == sender.id)
        cl['grant_recorded'] = q.voted == sender.id
        cl['grant_only_uptodate'] = Or(llt > p.last_term, And(Eq(llt, p.last_term), lli >= p.last))
        cl['granter_not_leader'] = q.role != L
        cl['grant_resets_election_timer'] = q.deadline >= now
    obs = lambda: dict(role=p.role, voted=p.voted, granted=granted, sender=sender.id, post_voted=q.voted, post_role=q.role,
               post_term=show(q.term), exc=show(exc))
    return Res(cl, nontrivial=granted or ro, obs=obs,
               vars=dict(role=p.role, granted=granted, term=p.term, mterm=mterm))


@obligation('E3', props=('C03', 'C05', 'C18', 'C01'), quick=_N_QUICK + [dict(N=1), dict(N=3, ro=True)],
            thorough=_N_THOROUGH + [dict(N=1), dict(N=3, ro=True)], stubs=_STUBS,
            bounds='voters N<=5, n<=3, terms 0..4, role in {F,C}, any deadline / clock / connectivity')
def E3(inp, N, n=2, ro=False):
    """election start: a tick starts an election only when due and connected; then term+1, self-vote,
    votes=1, one request_vote per other voter with the real last index/term, fresh randomized deadline."""
    o, tr, now = _mk(inp, N, ro)
    role = F if ro else inp.choice('role', 2)
    p = so.sym_state(inp, o, now, n, role=role, term_hi=T_HI)
    conf = o.conf
    _, exc = guard(o._onTick, 0.0)
    q = so.post_state(o)
    rv = [(nd, m) for nd, m in tr.sent if m['type'] == 'request_vote']
    started = bool(Or(len(rv) > 0, Not(Eq(q.term, p.term))))
    connected_any = any(p.conn.values()) or N == 1
    cl = _common(p, q, exc)
    cl['term_step_is_0_or_1'] = Or(Eq(q.term, p.term), Eq(q.term, p.term + 1))
    cl['starts_iff_due_and_connected'] = Iff(started, And(not ro, p.deadline < now, connected_any))
    cl['log_kept'] = And([And(Eq(a[1], b[1]), Eq(a[2], b[2])) for a, b in zip(p.log, q.log)]) if len(q.log) >= len(p.log) else False
    if started:
        cl['term_incremented'] = Eq(q.term, p.term + 1)
        cl['self_vote'] = q.voted == 'a'
        cl['one_request_per_other_voter'] = sorted(nd.id for nd, _ in rv) == [x.id for x in p.others]
        cl['request_fields'] = And([And(Eq(m['term'], q.term), Eq(m['last_log_index'], p.last), Eq(m['last_log_term'], p.last_term)) for _, m in rv] or [True])
        cl['new_deadline_in_range'] = And(q.deadline >= now + conf.raftMinTimeout, q.deadline <= now + conf.raftMaxTimeout)
        cl['role_after'] = (q.role == L) if N == 1 else (q.role == C)
        cl['votes_reset_to_1'] = Eq(q.votes, 1)
        cl['leader_pointer'] = (q.leader == Node('a')) if N == 1 else (q.leader is None)
    else:
        cl['nothing_changes'] = And(q.voted == p.voted, q.role == p.role, Eq(q.votes, p.votes), len(q.log) == len(p.log))
    obs = lambda: dict(role=p.role, started=started, conn=p.conn, post_role=q.role, sent=[(nd.id, m['type']) for nd, m in tr.sent], exc=show(exc))
    return Res(cl, nontrivial=started, obs=obs)


@obligation('E4', props=('C03', 'C18', 'C04', 'C01'), quick=_N_QUICK + [dict(N=4)],
            thorough=_N_THOROUGH, stubs=_STUBS,
            bounds='voters N<=5 (both parities), n<=3, terms 0..5, any role, votes 1..N, any reply term')
def E4(inp, N, n=2):
    """win: a node becomes leader on a response_vote only as candidate, for its current term, with
    votes+1 a strict majority; then nextIndex=last+1, matchIndex=0, own-term no-op appended."""
    o, tr, now = _mk(inp, N)
    p = so.sym_state(inp, o, now, n, term_hi=T_HI, stale_tables=True)      # a candidate may have been leader before
    sender = p.others[inp.choice('sender', len(p.others))]
    mterm = inp.int('mterm', 0, T_HI + 1)
    _, exc = guard(getattr(o, so.P + 'onMessageReceived'), sender, {'type': 'response_vote', 'term': mterm})
    q = so.post_state(o)
    became = p.role != L and q.role == L
    counted = And(p.role == C, Eq(mterm, p.term))
    cl = _common(p, q, exc)
    cl['term_and_vote_unchanged'] = And(Eq(q.term, p.term), q.voted == p.voted)
    cl['votes_counted_only_for_current_term_candidate'] = Eq(q.votes, Ite(counted, p.votes + 1, p.votes))
    cl['win_needs_strict_majority'] = Implies(became, And(counted, 2 * (p.votes + 1) > N))
    cl['win_when_majority'] = Implies(And(counted, 2 * (p.votes + 1) > N), became)
    cl['no_role_change_otherwise'] = Implies(Not(And(counted, 2 * (p.votes + 1) > N)), q.role == p.role)
    if became:
        cl['leader_pointer_self'] = q.leader == Node('a')
        cl['noop_of_own_term_appended'] = (len(q.log) == len(p.log) + 1 and
                                           And(Eq(q.log[-1][1], p.last + 1), Eq(q.log[-1][2], p.term), q.log[-1][0] == so.NOOP,
                                               so.logs_equal(p.log, q.log[:-1])))
        # the no-op may already have been sent to connected peers (nextIndex = last+2 then)
        cl['next_match_reset'] = And([And(Eq(q.next.get(x.id), Ite(p.conn[x.id], p.last + 2, p.last + 1)), Eq(q.match.get(x.id), 0)) for x in p.others])
        cl['response_times_reset'] = And([Eq(q.resp.get(x.id), now) for x in p.others])
        cl['own_noop_index_recorded'] = Eq(get(o, 'noopIDx'), p.last + 1)
    else:
        cl['log_untouched'] = so.logs_equal(p.log, q.log)
    obs = lambda: dict(role=p.role, became=became, post_role=q.role, sent=[(nd.id, m['type']) for nd, m in tr.sent], exc=show(exc))
    return Res(cl, nontrivial=Or(became, counted), obs=obs)
