"""C06 / C07: restart of a journaled node -- acknowledged entries are on disk before the acknowledgement leaves (JR2),
start-up reconciliation of journal and dump (JR3), journal-only restart (JR4), vote/term across a restart (RS).
The real SyncObj.__init__, FileJournal, __loadDumpFile run on the symbolic disk of pvf.disk."""
from pvf.core import And, Or, Not, Implies, Iff, Eq, Ite
from pvf.registry import obligation, Res
from pvf import so, core, disk, cmds
from pvf.blob import Blob
from pvf.so import F, C, L, get, put, guard, show, Node
from pvf.obligations.apply import Acc
from pvf.obligations import snapshot as snp
import pysyncobj.journal as J
import pysyncobj.syncobj as so_mod
import pysyncobj.pickle as real_pickle

_STUBS = ('pysyncobj.journal on the symbolic disk (pvf.disk)', 'transport=RecTransport', 'monotonicTime=Clock',
          'dump image = identity-capturing codec (pvf.obligations.snapshot)', 'a restart = a new SyncObj constructed on the same files')
T_HI = 4


def _fresh_disk(inp):
    fs = disk.install_journal(inp.concrete)
    so_mod.pickle = cmds.real_pickle
    return fs


def _node(inp, clock, cls=so.SyncObj, **kw):
    return so.make('a', ['b', 'c'], clock, inp, cls=cls, journalFile='jf', **kw)


class AckSpy(so.RecTransport):
    def __init__(self, fs):
        so.RecTransport.__init__(self)
        self.fs, self.at_ack = fs, []

    def send(self, node, message):
        if message.get('type') == 'next_node_idx' and message.get('success') is True:
            self.at_ack.append((message['next_node_idx'], dict(self.fs.files)))
        return so.RecTransport.send(self, node, message)


@obligation('JR2', props=('C06',), quick=[dict(n=1, m=1), dict(n=2, m=2), dict(n=2, m=1)], thorough=[dict(n=n, m=m) for n in (1, 2, 3, 4) for m in (1, 2, 3)],
            stubs=_STUBS, bounds='journaled follower with n<=3 entries, append_entries with m<=2 entries, symbolic terms/prevLogIdx (conflicts included); the disk image is inspected at the instant the success acknowledgement is handed to the transport')
def JR2(inp, n, m):
    """acknowledged means durable: at the instant a success acknowledgement for index i leaves the node, a process killed right
    there and restarted finds every entry up to i-1 in its journal (the file image at that instant reopens to a log holding them)."""
    fs = _fresh_disk(inp)
    now = inp.real('now', 0)
    o, _ = _node(inp, so.Clock(now))
    tr = AckSpy(fs)
    put(o, 'transport', tr)
    log = get(o, 'raftLog')
    ts = [0] + [inp.int('lt%d' % i, 0, T_HI) for i in range(1, n)]
    for i in range(1, n):
        inp.assume(ts[i] >= ts[i - 1])
        log.add(so.NOOP, 1 + i, ts[i])
    term = inp.int('term', 0, T_HI)
    inp.assume(ts[-1] <= term)
    put(o, 'raftCurrentTerm', term)
    pli = inp.choice('pli', n) + 1
    plt = inp.int('plt', 0, T_HI + 1)
    es = [inp.int('e%d' % i, 0, T_HI + 1) for i in range(m)]
    for i in range(m):
        inp.assume(es[i] >= (plt if i == 0 else es[i - 1]))
    mterm = inp.int('mterm', 0, T_HI + 1)
    inp.assume(And(es[-1] <= mterm, mterm >= term))
    entries = [(so.NOOP, pli + 1 + i, es[i]) for i in range(m)]
    msg = {'type': 'append_entries', 'term': mterm, 'commit_index': inp.int('mci', 0, n + m + 1), 'prevLogIdx': pli, 'prevLogTerm': plt, 'entries': entries}
    _, exc = guard(getattr(o, so.P + 'onMessageReceived'), Node('b'), msg)
    cl = {'no_exception': exc is None}
    mem_log = so.log_of(o)
    # what the once-per-second flush would persist now: never more than the node's own (verified) commit index
    get(o, 'raftLog').onOneSecondTimer()
    fs.recording = False
    j3, e3 = guard(J.FileJournal, 'jf')
    fs.recording = True
    if e3 is None:
        cl['persisted_commit_index_is_the_nodes_own'] = And(Eq(j3.getRaftCommitIndex(), o.raftCommitIndex), j3.getRaftCommitIndex() <= mem_log[-1][1])
    for (idx, files) in tr.at_ack:
        saved = fs.files
        fs.files, fs.recording = dict(files), False
        try:
            j2, e2 = guard(J.FileJournal, 'jf')
        finally:
            fs.files, fs.recording = saved, True
        cl['journal_reopens_at_ack'] = e2 is None
        if e2 is None:
            on_disk = [j2[i] for i in range(len(j2))]
            cl['acknowledged_entries_on_disk'] = And([so.has_entry(on_disk, e[1], e[2]) for e in mem_log if bool(e[1] < idx)] or [True])
            cl['disk_equals_memory_at_ack'] = len(on_disk) == len(mem_log) and so.logs_equal(on_disk, mem_log)
    return Res(cl, nontrivial=len(tr.at_ack) > 0, obs=lambda: dict(acks=[show(i) for i, _ in tr.at_ack], log=show(mem_log), exc=show(exc)))


def _prefill(inp, fs, n, base, commit_meta):
    j = J.FileJournal('jf')
    ts = [inp.int('jt%d' % i, 0, T_HI) for i in range(n)]
    for i in range(n - 1):
        inp.assume(ts[i] <= ts[i + 1])
    ents = []
    for i in range(n):
        e = (so.NOOP, base + i, ts[i])
        j.add(*e)
        ents.append(e)
    j.setRaftCommitIndex(commit_meta)
    j.onOneSecondTimer()
    return ents


@obligation('JR3', props=('C06', 'C09', 'C10'), quick=[dict(n=1), dict(n=2), dict(n=3), dict(n=4)], thorough=[dict(n=1), dict(n=2), dict(n=3), dict(n=4), dict(n=5), dict(n=6)], stubs=_STUBS,
            bounds='journal of n<=6 entries starting at index 1..3, dump taken at any journal position (or below / above the journal), symbolic terms; the dump agrees or disagrees with the journal head')
def JR3(inp, n):
    """start-up reconciliation (journal + dump): after the first-tick load no journaled entry above the dump position is lost,
    the applied index equals the dump position, and the commit index is not above the log end."""
    fs = _fresh_disk(inp)
    snp.install_memory()
    now = inp.real('now', 0)
    base = inp.choice('base', 3) + 1
    last = base + n - 1
    cm = inp.int('meta_commit', 1, last)
    ents = _prefill(inp, fs, n, base, cm)
    # the dump: entries (d-1, d); taken from this very journal (agrees) or from a compaction the journal head predates
    d = inp.choice('dump_at', n) + base + 1          # base+1 .. last+1: never older than the journal head (the trim follows the dump); last+1 = the journal
                                                     # holds only the dump's first entry (kill between the two appends of a journal reset)
    dt0, dt1 = inp.int('dt0', 0, T_HI), inp.int('dt1', 0, T_HI)
    inp.assume(dt0 <= dt1)
    agree = []
    for (idx, t) in ((d - 1, dt0), (d, dt1)):
        k = idx - base
        if 0 <= k < n:
            inp.assume(Eq(t, ents[k][2]))            # same index => same term (log matching between journal and dump)
    dyn = inp.flag('dynamic')
    o, tr = _node(inp, so.Clock(now), dynamicMembershipChange=dyn)
    pre_log = so.log_of(o)
    # the dump's member set holds a node the constructor list does not (added and compacted away before the restart)
    image = snp.Token(({}, (so.NOOP, d, dt1), (so.NOOP, d - 1, dt0), set([Node('a'), Node('b'), Node('c'), Node('x')])))
    get(o, 'serializer')._Serializer__inMemorySerializedData = image
    _, exc = guard(getattr(o, so.P + 'loadDumpFile'), False)
    q = so.post_state(o)
    cl = {'no_exception': exc is None}
    cl['journal_loaded_on_start'] = len(pre_log) == n and so.logs_equal(pre_log, ents)
    cl['applied_index_is_dump_position'] = Eq(q.applied, d)
    cl['journaled_entries_above_dump_kept'] = And([so.has_entry(q.log, e[1], e[2]) for e in ents if e[1] > d] or [True])
    cl['log_holds_dump_entries'] = And(so.has_entry(q.log, d - 1, dt0), so.has_entry(q.log, d, dt1))
    cl['log_contiguous'] = And([Eq(q.log[k][1], q.log[0][1] + k) for k in range(len(q.log))])
    # C10: the member set is restored from the snapshot - also when the journal matches the dump and is kept as it is
    cl['member_set_restored_from_dump'] = set(x.id for x in o.otherNodes) == ({'b', 'c', 'x'} if dyn else {'b', 'c'})
    head_agrees = (d - 1 == base)
    return Res(cl, nontrivial=True, obs=lambda: dict(base=base, n=n, dump_at=d, members=sorted(x.id for x in o.otherNodes), post_log=show(q.log), applied=show(q.applied), exc=show(exc)),
               vars=dict(head_agrees=head_agrees, d=d, base=base, last=last))


@obligation('JR4', props=('C06', 'C01'), quick=[dict(n=3)], thorough=[dict(n=3), dict(n=4)], stubs=_STUBS + ('pysyncobj.syncobj.pickle=FakePickle (arguments stay symbolic)',),
            bounds='journal of n<=4 add(x) commands starting at index 1..3 (>1 = head trimmed by an in-memory compaction), stored commit index anywhere in the journal; no dump file; two ticks after the restart')
def JR4(inp, n):
    """journal-only restart: the restarted node re-applies every committed entry it knows exactly once, in order (object state =
    fold of the committed prefix), and applies nothing twice on later ticks."""
    fs = _fresh_disk(inp)
    now = inp.real('now', 0)
    base = inp.choice('base', 3) + 1
    last = base + n - 1
    cm = inp.int('meta_commit', 1, last)
    inp.assume(cm >= base)
    j = J.FileJournal('jf')
    xs = [inp.int('x%d' % i, 1, 5) for i in range(n)]
    _ARGS.clear()
    for i in range(n):
        if i == 0 and base == 1:
            cmd = so.NOOP if inp.concrete else Blob.lit(so.NOOP)
        elif inp.concrete:
            cmd = so_mod._bchr(0) + real_pickle.dumps((0, (xs[i],)))
        else:
            cmd = Blob.lit(so_mod._bchr(0)) + Blob.fresh(('args', i), 8)
            _ARGS[('args', i)] = (0, (xs[i],))
        j.add(cmd if not inp.concrete else Blob.lit(cmd), base + i, 0)
    j.setRaftCommitIndex(cm)
    j.onOneSecondTimer()
    so_mod.pickle = _JPickle          # commands come back from the journal image as blobs (literal bytes in replay mode)
    from pvf.blob import symord, symlen
    so_mod.ord, so_mod.len = symord, symlen
    o, tr = _node(inp, so.Clock(now), cls=Acc)
    put(o, 'raftElectionDeadline', now + 100)
    _, exc = guard(o._onTick, 0.0)
    _, exc2 = guard(o._onTick, 0.0)
    first_cmd = 1 if base == 1 else 0
    want = [(And(base + i <= cm, base + i > 1), xs[i]) for i in range(first_cmd, n)]
    from pvf.obligations.apply import _seq_matches
    cl = {'no_exception': exc is None and exc2 is None}
    cl['commit_index_restored'] = Eq(o.raftCommitIndex, cm)
    cl['applied_reaches_commit'] = Eq(o.raftLastApplied, cm)
    cl['committed_prefix_applied_once_in_order'] = _seq_matches(o.seq, want)
    return Res(cl, nontrivial=cm > base, obs=lambda: dict(base=base, commit=show(cm), applied=show(o.raftLastApplied), seq=show(o.seq), exc=show(exc)),
               vars=dict(base=base))


_ARGS = {}


class _JPickle:
    """commands read back from the journal image are blobs: decode by origin"""
    @staticmethod
    def loads(x):
        if isinstance(x, Blob):
            o = x.sole_origin()
            if o is not None and o[0] in _ARGS:
                return _ARGS[o[0]]
            return real_pickle.loads(x.tobytes())
        return real_pickle.loads(x)

    dumps = staticmethod(real_pickle.dumps)
    to_bytes = staticmethod(lambda d: d)


@obligation('RST', props=('C07', 'C06'), quick=[dict()], stubs=_STUBS, bounds='term 1..5 symbolic, vote granted to b, then kill + restart, then a request of the same term from c with an up-to-date log')
def RST(inp):
    """a journaled node that granted its vote in term t, was killed and restarted, does not grant a second vote in term t
    to another candidate and does not fall back to an older term."""
    fs = _fresh_disk(inp)
    now = inp.real('now', 0)
    clock = so.Clock(now)
    o, tr = _node(inp, clock)
    t = inp.int('t', 1, 5)
    _, exc = guard(getattr(o, so.P + 'onMessageReceived'), Node('b'), {'type': 'request_vote', 'term': t, 'last_log_index': 1, 'last_log_term': 0})
    first = tr.of_type('response_vote')
    o.doTick(0.0)                                # let the node persist whatever it persists
    get(o, 'raftLog').onOneSecondTimer()
    o2, tr2 = _node(inp, clock)                  # kill + restart on the same files
    _, exc2 = guard(getattr(o2, so.P + 'onMessageReceived'), Node('c'), {'type': 'request_vote', 'term': t, 'last_log_index': 1, 'last_log_term': 0})
    second = tr2.of_type('response_vote')
    cl = {'no_exception': exc is None and exc2 is None}
    cl['first_vote_granted'] = len(first) == 1
    cl['no_second_vote_in_the_same_term_after_restart'] = len(second) == 0
    cl['term_not_forgotten'] = get(o2, 'raftCurrentTerm') >= t
    cl['log_survives_restart'] = len(so.log_of(o2)) == len(so.log_of(o))
    return Res(cl, nontrivial=True, obs=lambda: dict(t=show(t), second=len(second), term_after=show(get(o2, 'raftCurrentTerm'))), vars=dict(t=t))


@obligation('JR5', props=('C10', 'C06'), quick=[dict(n=3), dict(n=4)], thorough=[dict(n=3), dict(n=4), dict(n=5)], stubs=_STUBS + ('membership commands are real pickled bytes',),
            bounds='journal of n<=5 entries holding one or two membership entries (add d / rem c / add d then rem d) at any positions, stored commit index anywhere (below, at or above them); no dump file; constructor list [b, c]; two ticks after the restart')
def JR5(inp, n):
    """restart with dynamic membership: membership entries take effect when they are appended, so a restarted node's member set is
    the constructor list changed by every membership entry of its own journal - also those above the stored commit index, which it
    had stored and acknowledged but not seen committed - and stays that as the committed ones are applied again."""
    from pvf.obligations.membership import mcmd, fold
    fs = _fresh_disk(inp)
    now = inp.real('now', 0)
    j = J.FileJournal('jf')
    kinds = (('add', 'd'), ('rem', 'c'))
    first = kinds[inp.choice('change', 2)]
    pos1 = inp.choice('pos1', n - 1) + 1
    second = inp.flag('undone_later')          # a second entry that undoes the first (the known double-execution finding lives there)
    pos2 = (inp.choice('pos2', n - 1) + 1) if second else None
    inp.assume(True if pos2 is None else pos2 > pos1)
    ents = []
    for i in range(n):
        if i == pos1:
            c = mcmd(*first)
        elif pos2 is not None and i == pos2:
            c = mcmd('rem' if first[0] == 'add' else 'add', first[1])
        else:
            c = so.NOOP
        e = (c, 1 + i, 0)
        j.add(*e)
        ents.append(e)
    cm = inp.int('meta_commit', 1, n)
    j.setRaftCommitIndex(cm)
    j.onOneSecondTimer()
    so_mod.pickle = _JPickle          # commands come back from the journal image as blobs (literal bytes): decoded from their bytes
    from pvf.blob import symord, symlen
    so_mod.ord, so_mod.len = symord, symlen
    o, tr = _node(inp, so.Clock(now), dynamicMembershipChange=True)
    put(o, 'needLoadDumpFile', True)           # as after the real constructor: the first tick does the start-up load
    put(o, 'raftElectionDeadline', now + 100)
    _, exc = guard(o._onTick, 0.0)
    members1 = set(x.id for x in o.otherNodes)
    _, exc2 = guard(o._onTick, 0.0)
    members2 = set(x.id for x in o.otherNodes)
    want = fold({'b', 'c'}, ents)
    cl = {'no_exception': exc is None and exc2 is None}
    cl['journal_loaded'] = len(so.log_of(o)) == n
    cl['member_set_is_fold_of_own_journal'] = members1 == want
    cl['member_set_stable_while_applying'] = members2 == want
    return Res(cl, nontrivial=True, obs=lambda: dict(n=n, first=first, pos1=pos1, pos2=pos2, commit=show(cm), members=[sorted(members1), sorted(members2)], want=sorted(want), exc=show(exc)),
               vars=dict(two=1 if second else 0))
