"""pvf.so -- building real SyncObj objects with symbolic state (no TCP, virtual clock).

Everything is injected through the public constructor parameters (`transport=`,
`nodeClass=`, `conf=`), name-mangled attributes and module-namespace shadowing of
`pysyncobj.syncobj.monotonicTime` / `random`.  /repo is never modified.
"""
import logging
from fractions import Fraction

import pysyncobj.syncobj as so
from pysyncobj.syncobj import SyncObj, SyncObjConf, SyncObjConsumer, replicated, _COMMAND_TYPE, _bchr
from pysyncobj.transport import Transport
from pysyncobj.node import Node
from pysyncobj.config import FAIL_REASON

from . import core

logging.getLogger('pysyncobj').setLevel(logging.CRITICAL + 1)
logging.getLogger('pysyncobj.syncobj').setLevel(logging.CRITICAL + 1)

P = '_SyncObj__'
F, C, L = 0, 1, 2
NOOP = _bchr(_COMMAND_TYPE.NO_OP)


def get(o, name):
    return getattr(o, P + name)


def put(o, name, value):
    setattr(o, P + name, value)


class RecTransport(Transport):
    """Transport stub: records every message; `send` succeeds iff the target is in `up`
    (None = always).  Registry calls (addNode / dropNode) are recorded as well."""

    def __init__(self, up=None):
        Transport.__init__(self, None, None, None)
        self.sent = []
        self.registry = []
        self.up = up

    def send(self, node, message):
        self.sent.append((node, message))
        return True if self.up is None else (node in self.up)

    def addNode(self, node):
        self.registry.append(('add', node))

    def dropNode(self, node):
        self.registry.append(('drop', node))

    def of_type(self, t, to=None):
        return [m for n, m in self.sent if m.get('type') == t and (to is None or n == to)]


class Clock:
    """virtual monotonic clock; `now` may be a proxy.  Patched into pysyncobj.syncobj."""

    def __init__(self, now=0.0):
        self.now = now

    def __call__(self):
        return self.now


class FakeRandom:
    """random.random() -> fresh real in [0, 1) per call (symbolic) or a fixed list (replay)."""

    def __init__(self, inp):
        self.inp = inp
        self.n = 0

    def random(self):
        self.n += 1
        return self.inp.real('rnd%d' % self.n, 0, 1, hi_strict=True)


_REAL = {'monotonicTime': so.monotonicTime, 'random': so.random}


def install(clock=None, inp=None):
    so.monotonicTime = clock if clock is not None else _REAL['monotonicTime']
    if inp is not None:
        if getattr(inp, '_rnd', None) is None:
            inp._rnd = FakeRandom(inp)
        so.random = inp._rnd
    else:
        so.random = _REAL['random']


def make(selfid, others, clock=None, inp=None, cls=SyncObj, consumers=None, conf=None, **confkw):
    """real SyncObj on a recording transport"""
    install(clock, inp)
    tr = RecTransport()
    confkw.setdefault('autoTick', False)
    c = conf if conf is not None else SyncObjConf(**confkw)
    selfnode = Node(selfid) if selfid is not None else None
    o = cls(selfnode, [Node(x) for x in others], conf=c, consumers=consumers, transport=tr, nodeClass=Node)
    put(o, 'needLoadDumpFile', False)
    return o, tr


def set_log(o, entries):
    log = get(o, 'raftLog')
    log.clear()
    for e in entries:
        log.add(*e)


def log_of(o):
    log = get(o, 'raftLog')
    return [log[i] for i in range(len(log))]


def sym_log(inp, tag, n, base, term_hi, cur_term=None, commands=None):
    """n entries base..base+n-1 with symbolic non-decreasing terms in [0, term_hi]"""
    ts = [inp.int('%st%d' % (tag, i), 0, term_hi) for i in range(n)]
    for i in range(n - 1):
        inp.assume(ts[i] <= ts[i + 1])
    if cur_term is not None:
        inp.assume(ts[-1] <= cur_term)
    cmds = commands or [NOOP] * n
    return [(cmds[i], base + i, ts[i]) for i in range(n)], ts


def term_at(entries, idx, default=-1):
    """value-level lookup (no fork): term of the entry whose index is idx"""
    r = default
    for e in entries:
        r = core.Ite(core.Eq(e[1], idx), e[2], r)
    return r


def has_entry(entries, idx, term):
    return core.Or([core.And(core.Eq(e[1], idx), core.Eq(e[2], term)) for e in entries] or [False])


def nodes(ids):
    return [Node(x) for x in ids]


# ---------------------------------------------------------------------------------------
# symbolic well-formed pre-state (DESIGN 3.1)

class Pre:
    """snapshot of the pre-state (proxies), for use in oracles"""
    pass


def sym_state(inp, o, now, n, role=None, term_hi=4, base_hi=3, observers=(), connected=None,
              commands=None, term_lo=0, tag='', stale_tables=False):
    """Put an arbitrary well-formed state into the real object `o`.
    n = entries in the log; role None = case split over F/C/L.  Returns Pre."""
    from .core import And, Or, Implies
    p = Pre()
    selfnode = get(o, 'selfNode')
    others = sorted(get(o, 'otherNodes'), key=lambda x: x.id)
    p.others, p.N = others, len(others) + 1
    p.now = now
    p.term = inp.int(tag + 'term', term_lo, term_hi)
    if selfnode is None:
        p.role = F
    else:
        p.role = role if role is not None else inp.choice(tag + 'role', 3)
    p.base = inp.int(tag + 'base', 1, base_hi)
    p.log, p.ts = sym_log(inp, tag + 'l', n, p.base, term_hi, p.term, commands)
    p.last = p.base + n - 1
    p.last_term = p.ts[-1]
    p.commit = inp.int(tag + 'commit', 1, base_hi + n)
    p.applied = inp.int(tag + 'applied', 1, base_hi + n)
    inp.assume(And(p.base <= p.applied, p.applied <= p.commit, p.commit <= p.last))
    ids = [None] + [x.id for x in others] + ([selfnode.id] if selfnode is not None else [])
    if selfnode is None:
        p.voted = None
    elif p.role in (C, L):
        p.voted = selfnode.id
    else:
        p.voted = ids[inp.choice(tag + 'voted', len(ids))]
    if p.role == L:
        p.leader = selfnode
    elif p.role == C:
        p.leader = None
    else:
        k = inp.choice(tag + 'leader', len(others) + 1)
        p.leader = None if k == 0 else others[k - 1]
    p.votes = inp.int(tag + 'votes', 1, p.N) if p.role == C else 0
    p.deadline = inp.real(tag + 'deadline')
    put(o, 'raftCurrentTerm', p.term)
    put(o, 'raftState', p.role)
    put(o, 'votedForNodeId', p.voted)
    put(o, 'votesCount', p.votes)
    put(o, 'raftLeader', p.leader)
    put(o, 'raftElectionDeadline', p.deadline)
    set_log(o, p.log)
    put(o, 'raftCommitIndex', p.commit)
    put(o, 'raftLastApplied', p.applied)
    put(o, 'leaderCommitIndex', p.commit)
    put(o, 'startTime', now)
    put(o, 'lastSerializedTime', now)
    put(o, 'numOneSecondDumps', 10 ** 9)
    # connectivity
    p.observers = [Node(x) for x in observers]
    p.conn = {}
    cn = get(o, 'connectedNodes')
    for x in others + p.observers:
        c = inp.flag(tag + 'conn_' + x.id) if connected is None else (x.id in connected)
        p.conn[x.id] = c
        if c:
            cn.add(x)
    for x in p.observers:
        get(o, 'readonlyNodes').add(x)
    p.next, p.match, p.resp = {}, {}, {}
    if p.role == L:
        for x in others + p.observers:
            if x in p.observers and not p.conn[x.id]:
                continue            # a disconnected observer has no table entries
            nx = inp.int(tag + 'next_' + x.id, 1, base_hi + n + 1)
            mt = inp.int(tag + 'match_' + x.id, 0, base_hi + n)
            inp.assume(And(nx <= p.last + 1, mt <= p.last))
            get(o, 'raftNextIndex')[x] = nx
            get(o, 'raftMatchIndex')[x] = mt
            p.next[x.id], p.match[x.id] = nx, mt
            # (observers have an entry too: __onBecomeLeader and every answer of theirs write one)
            r = inp.real(tag + 'resp_' + x.id)
            inp.assume(r <= now)
            get(o, 'lastResponseTime')[x] = r
            p.resp[x.id] = r
    elif stale_tables and selfnode is not None:
        # a former leader keeps its (stale) tables: arbitrary old values, which a new leadership must not reuse
        for x in others:
            nx = inp.int(tag + 'stale_next_' + x.id, 1, base_hi + n + 1)
            mt = inp.int(tag + 'stale_match_' + x.id, 0, base_hi + n)
            get(o, 'raftNextIndex')[x] = nx
            get(o, 'raftMatchIndex')[x] = mt
            get(o, 'lastResponseTime')[x] = now - 1000
            p.next[x.id], p.match[x.id] = nx, mt
    return p


def post_state(o):
    q = Pre()
    q.term = get(o, 'raftCurrentTerm')
    q.role = get(o, 'raftState')
    q.voted = get(o, 'votedForNodeId')
    q.votes = get(o, 'votesCount')
    q.leader = get(o, 'raftLeader')
    q.log = log_of(o)
    q.commit = get(o, 'raftCommitIndex')
    q.applied = get(o, 'raftLastApplied')
    q.deadline = get(o, 'raftElectionDeadline')
    q.next = {k.id: v for k, v in get(o, 'raftNextIndex').items()}
    q.match = {k.id: v for k, v in get(o, 'raftMatchIndex').items()}
    q.resp = {k.id: v for k, v in get(o, 'lastResponseTime').items()}
    q.last = q.log[-1][1] if q.log else None
    q.last_term = q.log[-1][2] if q.log else None
    return q


def guard(fn, *a, **kw):
    """call real code; returns (result, exception or None)"""
    try:
        return fn(*a, **kw), None
    except Exception as e:           # Abort/Inconclusive are BaseException and pass through
        if isinstance(e, TypeError) and any(k in str(e) for k in ('Blob', 'SymInt', 'SymBool', 'Token', 'Payload', 'FakeFile')):
            # a proxy reached an operation implemented in C (bytes.join, struct, ...): the model cannot follow the code there.
            # That is a limit of the encoding, never a verdict about the code.
            raise core.Inconclusive('a symbolic proxy reached a C-level operation: %s' % e)
        return None, e


def show(x):
    """JSON-friendly rendering of proxies / nodes / entries for observations"""
    import z3
    if isinstance(x, (core.SymInt, core.SymBool)):
        return str(z3.simplify(x.e))
    if isinstance(x, Node):
        return x.id
    if isinstance(x, (list, tuple)):
        return [show(v) for v in x]
    if isinstance(x, dict):
        return {str(show(k)): show(v) for k, v in x.items()}
    if isinstance(x, (bytes, bytearray)):
        return x.hex() if len(x) <= 16 else '%d bytes' % len(x)
    if isinstance(x, Fraction):
        return float(x)
    if isinstance(x, (set, frozenset)):
        return sorted(show(v) for v in x)
    if isinstance(x, BaseException):
        return repr(x)
    return x


def logs_equal(a, b):
    """value-level equality of two entry lists of equal python length"""
    if len(a) != len(b):
        return False
    return core.And([core.And(core.Eq(x[1], y[1]), core.Eq(x[2], y[2]), x[0] == y[0]) for x, y in zip(a, b)] or [True])
