"""pvf.core -- thin z3-proxy symbolic executor for real Python code.

Values wrapped in SymInt/SymBool carry z3 terms.  Every Python-level branch on a proxy
asks the solver which sides are feasible; `explore` re-executes the function under test
depth-first until every feasible path has been run (DFS by re-execution with a decision
prefix).  Nothing here knows about PySyncObj.
"""
import time
from fractions import Fraction
import z3


class Abort(BaseException):
    """Path pruned (infeasible assumption / bound exceeded). BaseException so that the
    code under test cannot swallow it with `except Exception`."""


class Inconclusive(BaseException):
    """The engine cannot decide (solver unknown, unwinding bound hit on a feasible path)."""


SOLVER_TIMEOUT_MS = 120000


class Ctx:
    def __init__(self, prefix=()):
        self.solver = z3.Solver()
        self.solver.set('timeout', SOLVER_TIMEOUT_MS)
        self.prefix = list(prefix)   # decisions to replay: (taken, other_open)
        self.trace = []              # decisions taken on this run
        self.queries = 0
        self.solver_s = 0.0
        self.aborted = False
        self.inconclusive = None
        self.inputs = {}             # name -> z3 const (declared symbolic inputs)
        self.notes = []              # free-form per-path notes
        self._fresh = 0
        self._m = None               # a model of the current path condition (or None)

    # -- solver ---------------------------------------------------------------------
    def check(self, *extra):
        t = time.time()
        r = self.solver.check(*extra)
        self.solver_s += time.time() - t
        self.queries += 1
        if r == z3.unknown:
            self.inconclusive = 'solver unknown: %s' % self.solver.reason_unknown()
            raise Inconclusive(self.inconclusive)
        return r

    def sat(self, *extra):
        return self.check(*extra) == z3.sat

    def model(self):
        return self.solver.model()

    # -- path decisions -------------------------------------------------------------
    def branch(self, cond):
        cond = z3.simplify(cond)
        if z3.is_true(cond):
            return True
        if z3.is_false(cond):
            return False
        i = len(self.trace)
        if i < len(self.prefix):
            d, alt = self.prefix[i]
            assert d is True or d is False, 'non-deterministic harness: branch replay mismatch'
            self.trace.append((d, alt))
            self.solver.add(cond if d else z3.Not(cond))
            self._m = None
            return d
        # model-guided: the current model of the path condition witnesses one side for free
        m = self._model()
        side = z3.is_true(m.eval(cond, model_completion=True))
        if side:
            t_ok = True
            f_ok = self.sat(z3.Not(cond))
            if f_ok:
                alt = self.solver.model()
        else:
            f_ok = True
            t_ok = self.sat(cond)
            if t_ok:
                alt = self.solver.model()
        if t_ok:
            self.trace.append((True, f_ok))
            self.solver.add(cond)
            if not side:
                self._m = alt
            return True
        self.trace.append((False, False))
        self.solver.add(z3.Not(cond))
        return False

    def _model(self):
        if self._m is None:
            if not self.sat():
                self.aborted = True
                raise Abort()
            self._m = self.solver.model()
        return self._m

    def add(self, *conds):
        """add constraints that cannot make the path infeasible (ranges of fresh variables)"""
        self.solver.add(*conds)
        self._m = None

    def choose(self, var, n):
        """n-ary case split on a fresh variable ranging over 0..n-1 (every value is feasible,
        so no solver query is needed).  Trace entry: ('c', k, n)."""
        i = len(self.trace)
        if i < len(self.prefix):
            ent = self.prefix[i]
            assert ent[0] == 'c' and ent[2] == n, 'non-deterministic harness: choice replay mismatch'
            k = ent[1]
        else:
            k = 0
        self.trace.append(('c', k, n))
        self.solver.add(var == k)
        self._m = None
        return k

    def assume(self, cond):
        cond = zb(cond)
        self.solver.add(cond)
        if not self.sat():
            self.aborted = True
            raise Abort()
        self._m = self.solver.model()

    def fresh_name(self, stem):
        self._fresh += 1
        return '%s#%d' % (stem, self._fresh)


CTX = None


def ctx():
    return CTX


# ---------------------------------------------------------------------------------------
# conversion helpers

def _real_val(x):
    fr = Fraction(x)
    return z3.RealVal('%d/%d' % (fr.numerator, fr.denominator))


def zt(x):
    """python value / proxy -> z3 arithmetic or boolean term"""
    if isinstance(x, (SymInt, SymBool)):
        return x.e
    if isinstance(x, bool):
        return z3.BoolVal(x)
    if isinstance(x, int):
        return z3.IntVal(x)
    if isinstance(x, (float, Fraction)):
        return _real_val(x)
    if z3.is_expr(x):
        return x
    raise TypeError(type(x))


def zb(x):
    if isinstance(x, SymBool):
        return x.e
    if isinstance(x, bool):
        return z3.BoolVal(x)
    if z3.is_expr(x):
        return x
    raise TypeError('not a boolean: %r' % (x,))


def is_sym(x):
    return isinstance(x, (SymInt, SymBool))


class SymBool:
    __slots__ = ('e',)

    def __init__(self, e):
        self.e = e

    def __bool__(self):
        return CTX.branch(self.e)

    def __eq__(self, o):
        return SymBool(self.e == zb(o))

    def __ne__(self, o):
        return SymBool(self.e != zb(o))

    def __and__(self, o):
        return SymBool(z3.And(self.e, zb(o)))

    __rand__ = __and__

    def __or__(self, o):
        return SymBool(z3.Or(self.e, zb(o)))

    __ror__ = __or__

    def __invert__(self):
        return SymBool(z3.Not(self.e))

    __hash__ = None

    def __repr__(self):
        return 'SymBool(%s)' % self.e


# interval bounds travel with every proxy (lo/hi: python numbers, None = unbounded).  A comparison
# that the declared ranges already decide returns a plain bool: no term, no solver query.  This is
# sound because path conditions only narrow the ranges.

def _bnd(x):
    """(lo, hi) of a python number / proxy"""
    if isinstance(x, SymInt):
        return x.lo, x.hi
    if isinstance(x, bool):
        return int(x), int(x)
    if isinstance(x, (int, float, Fraction)):
        return x, x
    return None, None


def _badd(a, b):
    return (None if a[0] is None or b[0] is None else a[0] + b[0],
            None if a[1] is None or b[1] is None else a[1] + b[1])


def _bneg(a):
    return (None if a[1] is None else -a[1], None if a[0] is None else -a[0])


def _bmul(a, b):
    if None in a or None in b:
        # constant * unbounded keeps nothing useful except for zero
        if a == (0, 0) or b == (0, 0):
            return (0, 0)
        return (None, None)
    ps = [a[0] * b[0], a[0] * b[1], a[1] * b[0], a[1] * b[1]]
    return (min(ps), max(ps))


def _truediv(a, b):
    a = z3.ToReal(a) if a.sort() == z3.IntSort() else a
    b = z3.ToReal(b) if b.sort() == z3.IntSort() else b
    return a / b


def _floordiv(a, b):
    if a.sort() == z3.IntSort() and z3.is_int_value(b) and b.as_long() > 0:
        return a / b                       # SMT-LIB div == floor for positive divisors
    return z3.ToInt(_truediv(a, b))        # ToInt is floor


def _zarg(o):
    oz = zt(o)
    if z3.is_bool(oz):
        oz = z3.If(oz, z3.IntVal(1), z3.IntVal(0))
    return oz


class SymInt:
    """Proxy for int (Int sort) or float (Real sort) with interval bounds."""
    __slots__ = ('e', 'lo', 'hi')

    def __init__(self, e, lo=None, hi=None):
        self.e, self.lo, self.hi = e, lo, hi
        if lo is None and hi is None and (z3.is_int_value(e) or z3.is_rational_value(e)):
            v = e.as_long() if z3.is_int_value(e) else Fraction(e.numerator_as_long(), e.denominator_as_long())
            self.lo = self.hi = v

    def _bin(self, o, f, bf, swap=False):
        try:
            oz = _zarg(o)
        except TypeError:
            return NotImplemented
        a, b = (self.lo, self.hi), _bnd(o)
        if swap:
            lo, hi = bf(b, a)
            return SymInt(f(oz, self.e), lo, hi)
        lo, hi = bf(a, b)
        return SymInt(f(self.e, oz), lo, hi)

    def __add__(self, o):
        return self._bin(o, lambda a, b: a + b, _badd)

    def __radd__(self, o):
        return self._bin(o, lambda a, b: a + b, _badd, True)

    def __sub__(self, o):
        return self._bin(o, lambda a, b: a - b, lambda a, b: _badd(a, _bneg(b)))

    def __rsub__(self, o):
        return self._bin(o, lambda a, b: a - b, lambda a, b: _badd(a, _bneg(b)), True)

    def __mul__(self, o):
        return self._bin(o, lambda a, b: a * b, _bmul)

    def __rmul__(self, o):
        return self._bin(o, lambda a, b: a * b, _bmul, True)

    def __truediv__(self, o):
        return self._bin(o, _truediv, lambda a, b: (None, None))

    def __rtruediv__(self, o):
        return self._bin(o, _truediv, lambda a, b: (None, None), True)

    def __floordiv__(self, o):
        return self._bin(o, _floordiv, lambda a, b: (None, None))

    def __neg__(self):
        lo, hi = _bneg((self.lo, self.hi))
        return SymInt(-self.e, lo, hi)

    def __pos__(self):
        return self

    # comparisons: decided by the intervals when possible
    def _cmp(self, o, f, decide):
        try:
            oz = zt(o)
        except TypeError:
            return NotImplemented
        if z3.is_bool(oz):
            oz = z3.If(oz, z3.IntVal(1), z3.IntVal(0))
        d = decide((self.lo, self.hi), _bnd(o))
        if d is not None:
            return d
        return SymBool(f(self.e, oz))

    def __lt__(self, o):
        return self._cmp(o, lambda a, b: a < b, _dec_lt)

    def __le__(self, o):
        return self._cmp(o, lambda a, b: a <= b, _dec_le)

    def __gt__(self, o):
        return self._cmp(o, lambda a, b: a > b, lambda a, b: _dec_lt(b, a))

    def __ge__(self, o):
        return self._cmp(o, lambda a, b: a >= b, lambda a, b: _dec_le(b, a))

    def __eq__(self, o):
        try:
            oz = zt(o)
        except TypeError:
            return False
        if z3.is_bool(oz):
            return False
        d = _dec_eq((self.lo, self.hi), _bnd(o))
        if d is not None:
            return d
        return SymBool(self.e == oz)

    def __ne__(self, o):
        try:
            oz = zt(o)
        except TypeError:
            return True
        if z3.is_bool(oz):
            return True
        d = _dec_eq((self.lo, self.hi), _bnd(o))
        if d is not None:
            return not d
        return SymBool(self.e != oz)

    def __bool__(self):
        r = self != 0
        return r if isinstance(r, bool) else bool(r)

    def is_real(self):
        return self.e.sort() == z3.RealSort()

    def concretize(self):
        """fork over the feasible values (exhaustive iff the term has a finite range)"""
        if self.lo is not None and self.lo == self.hi:
            return self.lo
        e = z3.simplify(self.e)
        if z3.is_int_value(e):
            return e.as_long()
        if z3.is_rational_value(e):
            return Fraction(e.numerator_as_long(), e.denominator_as_long())
        while True:
            if not CTX.sat():
                CTX.aborted = True
                raise Abort()
            v = CTX.model().eval(self.e, model_completion=True)
            if CTX.branch(self.e == v):
                if z3.is_int_value(v):
                    return v.as_long()
                return Fraction(v.numerator_as_long(), v.denominator_as_long())

    def __index__(self):
        return self.concretize()

    def __int__(self):
        return int(self.concretize())

    def __float__(self):
        return float(self.concretize())

    def __hash__(self):
        return hash(self.concretize())

    def __repr__(self):
        return 'Sym(%s)' % z3.simplify(self.e)

    __str__ = __repr__


def _dec_lt(a, b):
    """a < b decided by intervals?"""
    if a[1] is not None and b[0] is not None and a[1] < b[0]:
        return True
    if a[0] is not None and b[1] is not None and a[0] >= b[1]:
        return False
    return None


def _dec_le(a, b):
    if a[1] is not None and b[0] is not None and a[1] <= b[0]:
        return True
    if a[0] is not None and b[1] is not None and a[0] > b[1]:
        return False
    return None


def _dec_eq(a, b):
    if a[0] is not None and a[0] == a[1] and b[0] is not None and b[0] == b[1]:
        return a[0] == b[0]
    if a[1] is not None and b[0] is not None and a[1] < b[0]:
        return False
    if a[0] is not None and b[1] is not None and a[0] > b[1]:
        return False
    return None


# ---------------------------------------------------------------------------------------
# logic combinators that work on python bools and SymBools alike (so that one obligation
# function serves symbolic exploration and concrete replay)

def _all_concrete(xs):
    return all(isinstance(x, bool) or (not is_sym(x) and not z3.is_expr(x)) for x in xs)


def And(*xs):
    if len(xs) == 1 and isinstance(xs[0], (list, tuple)):
        xs = tuple(xs[0])
    if _all_concrete(xs):
        return all(bool(x) for x in xs)
    if any(x is False for x in xs):
        return False
    xs = [x for x in xs if x is not True]
    if len(xs) == 1:
        return xs[0] if isinstance(xs[0], SymBool) else SymBool(zb(xs[0]))
    return SymBool(z3.And(*[zb(x) for x in xs]))


def Or(*xs):
    if len(xs) == 1 and isinstance(xs[0], (list, tuple)):
        xs = tuple(xs[0])
    if _all_concrete(xs):
        return any(bool(x) for x in xs)
    if any(x is True for x in xs):
        return True
    xs = [x for x in xs if x is not False]
    if len(xs) == 1:
        return xs[0] if isinstance(xs[0], SymBool) else SymBool(zb(xs[0]))
    return SymBool(z3.Or(*[zb(x) for x in xs]))


def Not(x):
    if _all_concrete([x]):
        return not x
    return SymBool(z3.Not(zb(x)))


def Implies(a, b):
    if _all_concrete([a, b]):
        return (not a) or bool(b)
    if a is False or b is True:
        return True
    if a is True:
        return b if isinstance(b, SymBool) else SymBool(zb(b))
    return SymBool(z3.Implies(zb(a), zb(b)))


def Iff(a, b):
    if _all_concrete([a, b]):
        return bool(a) == bool(b)
    return SymBool(zb(a) == zb(b))


def Ite(c, a, b):
    """value-level if-then-else (no path fork)"""
    if _all_concrete([c]):
        return a if c else b
    az, bz = zt(a), zt(b)
    if z3.is_bool(az):
        return SymBool(z3.If(zb(c), az, bz))
    (al, ah), (bl, bh) = _bnd(a), _bnd(b)
    return SymInt(z3.If(zb(c), az, bz), None if al is None or bl is None else min(al, bl),
                  None if ah is None or bh is None else max(ah, bh))


def Sum(xs):
    xs = list(xs)
    if not any(is_sym(x) for x in xs):
        return sum(xs)
    tot = 0
    for x in xs:
        tot = x + tot if is_sym(x) else tot + x
    return tot


def Count(bs):
    """number of true booleans"""
    bs = list(bs)
    if _all_concrete(bs):
        return sum(1 for b in bs if b)
    return SymInt(z3.Sum([z3.If(zb(b), 1, 0) if not isinstance(b, bool) else z3.IntVal(int(b)) for b in bs]), 0, len(bs))


def Eq(a, b):
    """equality that never raises and never forks; None / str aware"""
    if is_sym(a) or is_sym(b):
        r = (a == b) if is_sym(a) else (b == a)
        return r
    return a == b


def Min(a, b):
    return Ite(a <= b, a, b)


def Max(a, b):
    return Ite(a >= b, a, b)


# ---------------------------------------------------------------------------------------
# inputs: one interface, two implementations

class SymbolicInput:
    concrete = False

    def __init__(self, c):
        self.c = c

    def _declare(self, name, const):
        if name in self.c.inputs:
            raise RuntimeError('duplicate input name %s' % name)
        self.c.inputs[name] = const
        return const

    def int(self, name, lo, hi):
        v = self._declare(name, z3.Int(name))
        self.c.add(v >= zt(lo), v <= zt(hi))
        return SymInt(v, lo if isinstance(lo, int) else None, hi if isinstance(hi, int) else None)

    def real(self, name, lo=None, hi=None, lo_strict=False, hi_strict=False):
        v = self._declare(name, z3.Real(name))
        if lo is not None:
            self.c.add(v > zt(lo) if lo_strict else v >= zt(lo))
        if hi is not None:
            self.c.add(v < zt(hi) if hi_strict else v <= zt(hi))
        num = (int, float, Fraction)
        return SymInt(v, lo if isinstance(lo, num) else None, hi if isinstance(hi, num) else None)

    def bool(self, name):
        v = self._declare(name, z3.Bool(name))
        return SymBool(v)

    def choice(self, name, n):
        """bounded int 0..n-1, case-split immediately (shape dimension)"""
        v = self._declare(name, z3.Int(name))
        return self.c.choose(v, n)

    def flag(self, name):
        """boolean, case-split immediately"""
        v = self._declare(name, z3.Int(name))
        return self.c.choose(v, 2) == 1

    def assume(self, cond):
        self.c.assume(cond)


class ConcreteInput:
    """Replays a solver model (or a stored replay file) with plain Python values."""
    concrete = True

    def __init__(self, values):
        self.values = dict(values)
        self.used = {}
        self.failed_assumption = None

    def _get(self, name, default):
        v = self.values.get(name, default)
        self.used[name] = v
        return v

    def int(self, name, lo, hi):
        return int(self._get(name, lo))

    def real(self, name, lo=None, hi=None, lo_strict=False, hi_strict=False):
        d = lo if lo is not None else (hi if hi is not None else 0)
        v = self._get(name, d)
        if isinstance(v, str):
            v = Fraction(v)
        return Fraction(v)

    def bool(self, name):
        return bool(self._get(name, False))

    def choice(self, name, n):
        return int(self._get(name, 0))

    def flag(self, name):
        return bool(self._get(name, 0))

    def assume(self, cond):
        if not cond:
            self.failed_assumption = True
            raise Abort()


def model_values(c, model):
    out = {}
    for name, const in c.inputs.items():
        v = model.eval(const, model_completion=True)
        if z3.is_int_value(v):
            out[name] = v.as_long()
        elif z3.is_rational_value(v):
            out[name] = '%d/%d' % (v.numerator_as_long(), v.denominator_as_long())
        elif z3.is_true(v):
            out[name] = True
        elif z3.is_false(v):
            out[name] = False
        elif z3.is_algebraic_value(v):
            a = v.approx(20)
            out[name] = '%d/%d' % (a.numerator_as_long(), a.denominator_as_long())
        else:
            out[name] = str(v)
    return out


# ---------------------------------------------------------------------------------------
# exploration

class PathResult:
    __slots__ = ('value', 'ctx', 'exc')

    def __init__(self, value, c, exc=None):
        self.value, self.ctx, self.exc = value, c, exc


def _open(ent):
    if ent[0] == 'c':
        return ent[1] + 1 < ent[2]
    return ent[0] is True and ent[1]


def explore(fn, max_paths=200000, deadline=None):
    """Run fn(ctx) under every feasible path; yields PathResult for completed paths.
    Raises Inconclusive when the path budget or the deadline is exhausted."""
    global CTX
    prefix = []
    n = 0
    while True:
        c = Ctx(prefix)
        CTX = c
        try:
            res = fn(c)
            ok = not c.aborted
        except Abort:
            res, ok = None, False
        finally:
            CTX = None
        n += 1
        if ok:
            CTX = c          # post-processing of a path may still evaluate proxies
            try:
                yield PathResult(res, c)
            finally:
                CTX = None
        tr = c.trace
        while tr and not _open(tr[-1]):
            tr.pop()
        if not tr:
            return
        if n >= max_paths:
            raise Inconclusive('path budget %d exhausted' % max_paths)
        if deadline is not None and time.time() > deadline:
            raise Inconclusive('time budget exhausted after %d paths' % n)
        last = tr[-1]
        prefix = tr[:-1] + [('c', last[1] + 1, last[2]) if last[0] == 'c' else (False, False)]


def run_concrete(fn, values):
    """Run the same obligation function with plain values (replay)."""
    global CTX
    CTX = None
    return fn(ConcreteInput(values))
