"""pvf.core -- thin z3-proxy symbolic executor for real Python code.

Values wrapped in SymInt/SymBool carry z3 terms.  Every Python-level branch on a proxy
asks the solver which sides are feasible; `explore` re-executes the function under test
depth-first until every feasible path has been run (DFS by re-execution with a decision
prefix).  Nothing here knows about PySyncObj.
"""
import time
from fractions import Fraction
import z3


class Abort(BaseException):
    """Path pruned (infeasible assumption / bound exceeded). BaseException so that the
    code under test cannot swallow it with `except Exception`."""


class Inconclusive(BaseException):
    """The engine cannot decide (solver unknown, unwinding bound hit on a feasible path)."""


SOLVER_TIMEOUT_MS = 120000


class Ctx:
    def __init__(self, prefix=()):
        self.solver = z3.Solver()
        self.solver.set('timeout', SOLVER_TIMEOUT_MS)
        self.prefix = list(prefix)   # decisions to replay: (taken, other_open)
        self.trace = []              # decisions taken on this run
        self.queries = 0
        self.solver_s = 0.0
        self.aborted = False
        self.inconclusive = None
        self.inputs = {}             # name -> z3 const (declared symbolic inputs)
        self.notes = []              # free-form per-path notes
        self._fresh = 0

    # -- solver ---------------------------------------------------------------------
    def check(self, *extra):
        t = time.time()
        r = self.solver.check(*extra)
        self.solver_s += time.time() - t
        self.queries += 1
        if r == z3.unknown:
            self.inconclusive = 'solver unknown: %s' % self.solver.reason_unknown()
            raise Inconclusive(self.inconclusive)
        return r

    def sat(self, *extra):
        return self.check(*extra) == z3.sat

    def model(self):
        return self.solver.model()

    # -- path decisions -------------------------------------------------------------
    def branch(self, cond):
        cond = z3.simplify(cond)
        if z3.is_true(cond):
            return True
        if z3.is_false(cond):
            return False
        i = len(self.trace)
        if i < len(self.prefix):
            d, alt = self.prefix[i]
            assert d is True or d is False, 'non-deterministic harness: branch replay mismatch'
            self.trace.append((d, alt))
            self.solver.add(cond if d else z3.Not(cond))
            return d
        t_ok = self.sat(cond)
        f_ok = self.sat(z3.Not(cond))
        if t_ok:
            self.trace.append((True, f_ok))
            self.solver.add(cond)
            return True
        if f_ok:
            self.trace.append((False, False))
            self.solver.add(z3.Not(cond))
            return False
        self.aborted = True
        raise Abort()

    def choose(self, var, n):
        """n-ary case split on a fresh variable ranging over 0..n-1 (every value is feasible,
        so no solver query is needed).  Trace entry: ('c', k, n)."""
        i = len(self.trace)
        if i < len(self.prefix):
            ent = self.prefix[i]
            assert ent[0] == 'c' and ent[2] == n, 'non-deterministic harness: choice replay mismatch'
            k = ent[1]
        else:
            k = 0
        self.trace.append(('c', k, n))
        self.solver.add(var == k)
        return k

    def assume(self, cond):
        cond = zb(cond)
        self.solver.add(cond)
        if not self.sat():
            self.aborted = True
            raise Abort()

    def fresh_name(self, stem):
        self._fresh += 1
        return '%s#%d' % (stem, self._fresh)


CTX = None


def ctx():
    return CTX


# ---------------------------------------------------------------------------------------
# conversion helpers

def _real_val(x):
    fr = Fraction(x)
    return z3.RealVal('%d/%d' % (fr.numerator, fr.denominator))


def zt(x):
    """python value / proxy -> z3 arithmetic or boolean term"""
    if isinstance(x, (SymInt, SymBool)):
        return x.e
    if isinstance(x, bool):
        return z3.BoolVal(x)
    if isinstance(x, int):
        return z3.IntVal(x)
    if isinstance(x, (float, Fraction)):
        return _real_val(x)
    if z3.is_expr(x):
        return x
    raise TypeError(type(x))


def zb(x):
    if isinstance(x, SymBool):
        return x.e
    if isinstance(x, bool):
        return z3.BoolVal(x)
    if z3.is_expr(x):
        return x
    raise TypeError('not a boolean: %r' % (x,))


def is_sym(x):
    return isinstance(x, (SymInt, SymBool))


class SymBool:
    __slots__ = ('e',)

    def __init__(self, e):
        self.e = e

    def __bool__(self):
        return CTX.branch(self.e)

    def __eq__(self, o):
        return SymBool(self.e == zb(o))

    def __ne__(self, o):
        return SymBool(self.e != zb(o))

    def __and__(self, o):
        return SymBool(z3.And(self.e, zb(o)))

    __rand__ = __and__

    def __or__(self, o):
        return SymBool(z3.Or(self.e, zb(o)))

    __ror__ = __or__

    def __invert__(self):
        return SymBool(z3.Not(self.e))

    __hash__ = None

    def __repr__(self):
        return 'SymBool(%s)' % self.e


def _arith(f, swap=False):
    def op(self, o):
        try:
            oz = zt(o)
        except TypeError:
            return NotImplemented
        if z3.is_bool(oz):
            oz = z3.If(oz, z3.IntVal(1), z3.IntVal(0))
        return SymInt(f(oz, self.e) if swap else f(self.e, oz))
    return op


def _cmp(f):
    def op(self, o):
        try:
            oz = zt(o)
        except TypeError:
            return NotImplemented
        return SymBool(f(self.e, oz))
    return op


def _truediv(a, b):
    a = z3.ToReal(a) if a.sort() == z3.IntSort() else a
    b = z3.ToReal(b) if b.sort() == z3.IntSort() else b
    return a / b


def _floordiv(a, b):
    if a.sort() == z3.IntSort() and z3.is_int_value(b) and b.as_long() > 0:
        return a / b                       # SMT-LIB div == floor for positive divisors
    return z3.ToInt(_truediv(a, b))        # ToInt is floor


class SymInt:
    """Proxy for int (Int sort) or float (Real sort)."""
    __slots__ = ('e',)

    def __init__(self, e):
        self.e = e

    __add__ = _arith(lambda a, b: a + b)
    __radd__ = _arith(lambda a, b: a + b, swap=True)
    __sub__ = _arith(lambda a, b: a - b)
    __rsub__ = _arith(lambda a, b: a - b, swap=True)
    __mul__ = _arith(lambda a, b: a * b)
    __rmul__ = _arith(lambda a, b: a * b, swap=True)
    __truediv__ = _arith(_truediv)
    __rtruediv__ = _arith(_truediv, swap=True)
    __floordiv__ = _arith(_floordiv)
    __lt__ = _cmp(lambda a, b: a < b)
    __le__ = _cmp(lambda a, b: a <= b)
    __gt__ = _cmp(lambda a, b: a > b)
    __ge__ = _cmp(lambda a, b: a >= b)

    def __neg__(self):
        return SymInt(-self.e)

    def __pos__(self):
        return self

    def __eq__(self, o):
        try:
            oz = zt(o)
        except TypeError:
            return False
        if z3.is_bool(oz):
            return False
        return SymBool(self.e == oz)

    def __ne__(self, o):
        try:
            oz = zt(o)
        except TypeError:
            return True
        if z3.is_bool(oz):
            return True
        return SymBool(self.e != oz)

    def __bool__(self):
        return CTX.branch(self.e != 0)

    def is_real(self):
        return self.e.sort() == z3.RealSort()

    def concretize(self):
        """fork over the feasible values (exhaustive iff the term has a finite range)"""
        e = z3.simplify(self.e)
        if z3.is_int_value(e):
            return e.as_long()
        if z3.is_rational_value(e):
            return Fraction(e.numerator_as_long(), e.denominator_as_long())
        while True:
            if not CTX.sat():
                CTX.aborted = True
                raise Abort()
            v = CTX.model().eval(self.e, model_completion=True)
            if CTX.branch(self.e == v):
                if z3.is_int_value(v):
                    return v.as_long()
                return Fraction(v.numerator_as_long(), v.denominator_as_long())

    def __index__(self):
        return self.concretize()

    def __int__(self):
        return int(self.concretize())

    def __float__(self):
        return float(self.concretize())

    def __hash__(self):
        return hash(self.concretize())

    def __repr__(self):
        return 'Sym(%s)' % z3.simplify(self.e)

    __str__ = __repr__


# ---------------------------------------------------------------------------------------
# logic combinators that work on python bools and SymBools alike (so that one obligation
# function serves symbolic exploration and concrete replay)

def _all_concrete(xs):
    return all(isinstance(x, bool) or (not is_sym(x) and not z3.is_expr(x)) for x in xs)


def And(*xs):
    if len(xs) == 1 and isinstance(xs[0], (list, tuple)):
        xs = tuple(xs[0])
    if _all_concrete(xs):
        return all(bool(x) for x in xs)
    return SymBool(z3.And(*[zb(x) for x in xs]))


def Or(*xs):
    if len(xs) == 1 and isinstance(xs[0], (list, tuple)):
        xs = tuple(xs[0])
    if _all_concrete(xs):
        return any(bool(x) for x in xs)
    return SymBool(z3.Or(*[zb(x) for x in xs]))


def Not(x):
    if _all_concrete([x]):
        return not x
    return SymBool(z3.Not(zb(x)))


def Implies(a, b):
    if _all_concrete([a, b]):
        return (not a) or bool(b)
    return SymBool(z3.Implies(zb(a), zb(b)))


def Iff(a, b):
    if _all_concrete([a, b]):
        return bool(a) == bool(b)
    return SymBool(zb(a) == zb(b))


def Ite(c, a, b):
    """value-level if-then-else (no path fork)"""
    if _all_concrete([c]):
        return a if c else b
    az, bz = zt(a), zt(b)
    if z3.is_bool(az):
        return SymBool(z3.If(zb(c), az, bz))
    return SymInt(z3.If(zb(c), az, bz))


def Sum(xs):
    xs = list(xs)
    if not any(is_sym(x) for x in xs):
        return sum(xs)
    tot = 0
    for x in xs:
        tot = x + tot if is_sym(x) else tot + x
    return tot


def Count(bs):
    """number of true booleans"""
    bs = list(bs)
    if _all_concrete(bs):
        return sum(1 for b in bs if b)
    return SymInt(z3.Sum([z3.If(zb(b), 1, 0) for b in bs]))


def Eq(a, b):
    """equality that never raises and never forks; None / str aware"""
    if is_sym(a) or is_sym(b):
        r = (a == b) if is_sym(a) else (b == a)
        return r
    return a == b


def Min(a, b):
    return Ite(a <= b, a, b)


def Max(a, b):
    return Ite(a >= b, a, b)


# ---------------------------------------------------------------------------------------
# inputs: one interface, two implementations

class SymbolicInput:
    concrete = False

    def __init__(self, c):
        self.c = c

    def _declare(self, name, const):
        if name in self.c.inputs:
            raise RuntimeError('duplicate input name %s' % name)
        self.c.inputs[name] = const
        return const

    def int(self, name, lo, hi):
        v = self._declare(name, z3.Int(name))
        self.c.solver.add(v >= zt(lo), v <= zt(hi))
        return SymInt(v)

    def real(self, name, lo=None, hi=None, lo_strict=False, hi_strict=False):
        v = self._declare(name, z3.Real(name))
        if lo is not None:
            self.c.solver.add(v > zt(lo) if lo_strict else v >= zt(lo))
        if hi is not None:
            self.c.solver.add(v < zt(hi) if hi_strict else v <= zt(hi))
        return SymInt(v)

    def bool(self, name):
        v = self._declare(name, z3.Bool(name))
        return SymBool(v)

    def choice(self, name, n):
        """bounded int 0..n-1, case-split immediately (shape dimension)"""
        v = self._declare(name, z3.Int(name))
        return self.c.choose(v, n)

    def flag(self, name):
        """boolean, case-split immediately"""
        v = self._declare(name, z3.Int(name))
        return self.c.choose(v, 2) == 1

    def assume(self, cond):
        self.c.assume(cond)


class ConcreteInput:
    """Replays a solver model (or a stored replay file) with plain Python values."""
    concrete = True

    def __init__(self, values):
        self.values = dict(values)
        self.used = {}
        self.failed_assumption = None

    def _get(self, name, default):
        v = self.values.get(name, default)
        self.used[name] = v
        return v

    def int(self, name, lo, hi):
        return int(self._get(name, lo))

    def real(self, name, lo=None, hi=None, lo_strict=False, hi_strict=False):
        d = lo if lo is not None else (hi if hi is not None else 0)
        v = self._get(name, d)
        if isinstance(v, str):
            v = Fraction(v)
        return Fraction(v)

    def bool(self, name):
        return bool(self._get(name, False))

    def choice(self, name, n):
        return int(self._get(name, 0))

    def flag(self, name):
        return bool(self._get(name, 0))

    def assume(self, cond):
        if not cond:
            self.failed_assumption = True
            raise Abort()


def model_values(c, model):
    out = {}
    for name, const in c.inputs.items():
        v = model.eval(const, model_completion=True)
        if z3.is_int_value(v):
            out[name] = v.as_long()
        elif z3.is_rational_value(v):
            out[name] = '%d/%d' % (v.numerator_as_long(), v.denominator_as_long())
        elif z3.is_true(v):
            out[name] = True
        elif z3.is_false(v):
            out[name] = False
        elif z3.is_algebraic_value(v):
            a = v.approx(20)
            out[name] = '%d/%d' % (a.numerator_as_long(), a.denominator_as_long())
        else:
            out[name] = str(v)
    return out


# ---------------------------------------------------------------------------------------
# exploration

class PathResult:
    __slots__ = ('value', 'ctx', 'exc')

    def __init__(self, value, c, exc=None):
        self.value, self.ctx, self.exc = value, c, exc


def _open(ent):
    if ent[0] == 'c':
        return ent[1] + 1 < ent[2]
    return ent[0] is True and ent[1]


def explore(fn, max_paths=200000, deadline=None):
    """Run fn(ctx) under every feasible path; yields PathResult for completed paths.
    Raises Inconclusive when the path budget or the deadline is exhausted."""
    global CTX
    prefix = []
    n = 0
    while True:
        c = Ctx(prefix)
        CTX = c
        try:
            res = fn(c)
            ok = not c.aborted
        except Abort:
            res, ok = None, False
        finally:
            CTX = None
        n += 1
        if ok:
            CTX = c          # post-processing of a path may still evaluate proxies
            try:
                yield PathResult(res, c)
            finally:
                CTX = None
        tr = c.trace
        while tr and not _open(tr[-1]):
            tr.pop()
        if not tr:
            return
        if n >= max_paths:
            raise Inconclusive('path budget %d exhausted' % max_paths)
        if deadline is not None and time.time() > deadline:
            raise Inconclusive('time budget exhausted after %d paths' % n)
        last = tr[-1]
        prefix = tr[:-1] + [('c', last[1] + 1, last[2]) if last[0] == 'c' else (False, False)]


def run_concrete(fn, values):
    """Run the same obligation function with plain values (replay)."""
    global CTX
    CTX = None
    return fn(ConcreteInput(values))
