"""pvf.run -- driver: explores obligations in parallel, decides clauses with z3, replays
counterexamples concretely, matches known findings, writes evidence.

usage: python -m pvf.run <PROPERTY> [--tier quick|thorough] [--only OB[,OB]] [--jobs N]
       python -m pvf.run --replay <file>
exit: 0 holds / 1 VIOLATION (replayed) / 2 inconclusive (never prints VIOLATION)
"""
import argparse
import hashlib
import inspect
import json
import multiprocessing as mp
import os
import sys
import time
import traceback

import z3

VERIF = os.path.dirname(os.path.dirname(os.path.abspath(__file__)))
REPO = os.environ.get('REPO', '/repo')
if REPO not in sys.path:
    sys.path.insert(0, REPO)

from . import core, registry, blob          # noqa: E402
from .core import Abort, Inconclusive      # noqa: E402

MAX_VIOL_PER_TASK = 3
SAMPLES_PER_TASK = 2


# ---------------------------------------------------------------------------------------
def _jsonable(x):
    if isinstance(x, (str, int, float, bool)) or x is None:
        return x
    if isinstance(x, (list, tuple)):
        return [_jsonable(v) for v in x]
    if isinstance(x, dict):
        return {str(k): _jsonable(v) for k, v in x.items()}
    if isinstance(x, (set, frozenset)):
        return sorted((_jsonable(v) for v in x), key=str)
    return str(x)


def _load_kf():
    p = os.path.join(VERIF, 'known_findings.json')
    if not os.path.exists(p):
        return {'findings': [], 'fixed': []}
    return json.load(open(p))


def _region_ns(res):
    ns = {'And': core.And, 'Or': core.Or, 'Not': core.Not, 'Implies': core.Implies, 'True': True, 'False': False}
    ns.update(res.vars)
    return ns


class _Profiler:
    """collect the repo functions entered while one path runs (evidence: functions encoded)"""

    def __init__(self):
        self.codes = {}

    def __call__(self, frame, event, arg):
        if event == 'call':
            co = frame.f_code
            fn = co.co_filename
            if fn.startswith(REPO) and '/pysyncobj/' in fn:
                self.codes[(fn, co.co_firstlineno)] = co

    def summary(self):
        out = {}
        for (fn, line), co in self.codes.items():
            try:
                src = inspect.getsource(co)
            except Exception:
                src = ''
            name = getattr(co, 'co_qualname', co.co_name)
            out['%s:%s' % (os.path.relpath(fn, REPO), name)] = hashlib.sha1(src.encode()).hexdigest()[:12]
        return out


def _obs(o):
    return o() if callable(o) else o


def _eval_clause_concrete(v):
    if isinstance(v, bool):
        return v
    if isinstance(v, core.SymBool):
        e = z3.simplify(v.e)
        if z3.is_true(e):
            return True
        if z3.is_false(e):
            return False
        raise RuntimeError('clause not concrete in replay: %s' % e)
    return bool(v)


def replay(obname, params, values):
    """run the obligation with plain python values; returns (clause results dict, obs) or ('assumption', None)"""
    ob = registry.load_all()[obname]
    inp = core.ConcreteInput(values)
    saved = core.CTX
    core.CTX = None
    try:
        try:
            res = ob.fn(inp, **params)
        except Abort:
            return None, None
        out = {}
        for k, v in res.clauses.items():
            out[k] = _eval_clause_concrete(v)
        return out, _jsonable(_obs(res.obs))
    finally:
        core.CTX = saved


def _cvc5_verdict(c, neg):
    """second opinion on one deciding query: the path condition plus NOT clause, exported as SMT-LIB2, decided by cvc5"""
    try:
        import cvc5
    except ImportError:
        return 'unavailable'
    c.solver.push()
    try:
        c.solver.add(neg)
        text = c.solver.to_smt2()
    finally:
        c.solver.pop()
    try:
        tm = cvc5.TermManager()
        slv = cvc5.Solver(tm)
        slv.setOption('tlimit-per', '20000')
        prs = cvc5.InputParser(slv)
        prs.setStringInput(cvc5.InputLanguage.SMT_LIB_2_6, '(set-logic ALL)\n' + text, 'q')
        sm = prs.getSymbolManager()
        last = ''
        while True:
            cmd = prs.nextCommand()
            if cmd.isNull():
                break
            r = str(cmd.invoke(slv, sm)).strip()
            if r:
                last = r
        return last if last in ('sat', 'unsat') else 'unknown'
    except Exception as e:
        return 'error: %s' % str(e)[:80]


def _xcheck_due(n, tier):
    """which deciding queries get a cvc5 second opinion: the first two of every task, then every 50th (quick) / 10th (thorough)"""
    return n <= 2 or n % (10 if tier == 'thorough' else 50) == 0


class _Budget(BaseException):
    pass


def _on_alarm(sig, frame):
    raise _Budget()


TASK_BUDGET_S = {'quick': int(os.environ.get('VERIF_TASK_BUDGET', '900')), 'thorough': int(os.environ.get('VERIF_TASK_BUDGET', '7200'))}


def run_task(args):
    obname, params, tier, prop = args
    t0 = time.time()
    import signal
    signal.signal(signal.SIGALRM, _on_alarm)
    signal.alarm(TASK_BUDGET_S.get(tier, 900))
    out = dict(obligation=obname, params=params, paths=0, queries=0, solver_s=0.0, nontrivial=0,
               decided=0, violations=[], known=[], spurious=[], inconclusive=None, samples=[], xchecked=0, xagree=0, xunknown=0, xdisagree=[],
               functions={}, wall_s=0.0, clauses=[])
    try:
        ob = registry.load_all()[obname]
        kf = [f for f in _load_kf().get('findings', []) if f['obligation'] == obname]
        blob.UNWIND['hit'] = False
        prof = _Profiler()
        clause_names = set()

        def fn(c):
            inp = core.SymbolicInput(c)
            return ob.fn(inp, **params)

        first = not os.environ.get('PVF_NOPROFILE')
        gen = core.explore(fn, max_paths=ob.budget)
        while True:
            if first:
                sys.setprofile(prof)
            try:
                pr = next(gen)
            except StopIteration:
                break
            finally:
                if first:
                    sys.setprofile(None)
                    first = False
            c, res = pr.ctx, pr.value
            out['paths'] += 1
            # vacuity: is the antecedent satisfiable on this path?
            nt = res.nontrivial
            if isinstance(nt, core.SymBool):
                nt = c.sat(nt.e)
            if nt:
                out['nontrivial'] += 1
            clause_names.update(res.clauses)
            # fast path: one query decides all clauses of the path; details only if it is sat
            todo = list(res.clauses.items())
            if all(not (isinstance(cl, bool) and not cl) for _, cl in todo):
                symb = [core.zb(cl) for _, cl in todo if not isinstance(cl, bool)]
                out['decided'] += 1
                if not symb or not c.sat(z3.Not(z3.And(*symb))):
                    todo = []
                    if symb and _xcheck_due(out['decided'], tier) and not os.environ.get('VERIF_NO_XCHECK'):
                        v = _cvc5_verdict(c, z3.Not(z3.And(*symb)))
                        out['xchecked'] += 1
                        if v == 'unsat':
                            out['xagree'] += 1
                        elif v == 'sat':
                            out['xdisagree'].append(sorted(res.clauses))
                        else:
                            out['xunknown'] += 1
            for cname, cl in todo:
                if isinstance(cl, bool):
                    if cl:
                        continue
                    neg = z3.BoolVal(True)
                else:
                    neg = z3.Not(core.zb(cl))
                out['decided'] += 1
                regions = [f for f in kf if f['clause'] == cname]
                if regions:
                    ns = _region_ns(res)
                    regs = [(f, core.zb(eval(f['region'], {'__builtins__': {}}, ns))) for f in regions]
                    for f, r in regs:
                        if c.sat(neg, r) and f['id'] not in [k['id'] for k in out['known']]:
                            vals = core.model_values(c, c.model())
                            cl_res, _ = replay(obname, params, vals)
                            out['known'].append(dict(id=f['id'], what=f['what'], properties=f['properties'],
                                                     replayed=bool(cl_res is not None and cl_res.get(cname) is False),
                                                     inputs=vals))
                    neg = z3.And(neg, *[z3.Not(r) for _, r in regs])
                if c.sat(neg):
                    vals = core.model_values(c, c.model())
                    cl_res, obs = replay(obname, params, vals)
                    rec = dict(clause=cname, inputs=vals, params=params, obligation=obname,
                               obs=_jsonable(_obs(obs)), path_obs=_jsonable(_obs(res.obs)))
                    if cl_res is not None and cl_res.get(cname) is False:
                        out['violations'].append(rec)
                    else:
                        rec['replay_result'] = _jsonable(cl_res)
                        out['spurious'].append(rec)
            if len(out['samples']) < SAMPLES_PER_TASK and nt and not todo:
                if c.sat():
                    vals = core.model_values(c, c.model())
                    sample_obs = _jsonable(_obs(res.obs))
                    # translation check: the same inputs, run without any proxy, must satisfy every clause too
                    cl_res, _ = replay(obname, params, vals)
                    agrees = cl_res is not None and all(v is True for v in cl_res.values())
                    out['samples'].append(dict(obligation=obname, params=params, inputs=vals, path_decisions=len(c.trace),
                                               obs=sample_obs, concrete_replay_agrees=agrees))
                    out['sample_replays'] = out.get('sample_replays', 0) + 1
                    if not agrees:
                        out['sample_mismatch'] = dict(inputs=vals, replay=_jsonable(cl_res))
            out['queries'] += c.queries
            out['solver_s'] += c.solver_s
            if len(out['violations']) + len(out['spurious']) >= MAX_VIOL_PER_TASK:
                break
        if blob.UNWIND['hit']:
            out['inconclusive'] = 'unwinding bound hit on a feasible path'
        out['functions'] = prof.summary()
        out['clauses'] = sorted(clause_names)
    except Inconclusive as e:
        out['inconclusive'] = str(e)
    except _Budget:
        out['inconclusive'] = 'task time budget (%ds) exhausted after %d paths' % (TASK_BUDGET_S.get(tier, 900), out['paths'])
    except Exception:
        out['inconclusive'] = 'harness error: ' + traceback.format_exc()
    finally:
        signal.alarm(0)
        sys.setprofile(None)
    out['wall_s'] = round(time.time() - t0, 3)
    return out


# ---------------------------------------------------------------------------------------
def _repo_digest():
    h = hashlib.sha1()
    d = os.path.join(REPO, 'pysyncobj')
    for fn in sorted(os.listdir(d)):
        if fn.endswith('.py'):
            h.update(fn.encode())
            h.update(open(os.path.join(d, fn), 'rb').read())
    return h.hexdigest()[:16]


def main(argv=None):
    ap = argparse.ArgumentParser()
    ap.add_argument('prop', nargs='?')
    ap.add_argument('--tier', default=os.environ.get('VERIF_TIER', 'quick'))
    ap.add_argument('--only', default=None)
    ap.add_argument('--jobs', type=int, default=int(os.environ.get('VERIF_JOBS', '0')) or min(16, os.cpu_count() or 4))
    ap.add_argument('--replay', default=None)
    ap.add_argument('--no-evidence', action='store_true')
    a = ap.parse_args(argv)
    seed = int(os.environ.get('VERIF_SEED', '0'))

    if a.replay:
        r = json.load(open(a.replay))
        cl, obs = replay(r['obligation'], r['params'], r['inputs'])
        print('replay %s %s params=%s' % (r['property'], r['obligation'], r['params']))
        print('inputs:', json.dumps(r['inputs'], sort_keys=True))
        print('observations:', json.dumps(_jsonable(_obs(obs)), sort_keys=True))
        print('clauses:', cl)
        bad = cl is not None and any(v is False for v in cl.values())
        if bad:
            print('VIOLATION property=%s replay=%s' % (r['property'], a.replay))
        return 1 if bad else 0

    prop = a.prop
    t0 = time.time()
    obs = registry.for_property(prop)
    if a.only:
        keep = set(a.only.split(','))
        obs = [o for o in obs if o.name in keep]
    if not obs:
        print('no obligations registered for', prop)
        return 2
    tasks = []
    for ob in obs:
        for params in ob.params(a.tier):
            tasks.append((ob.name, params, a.tier, prop))
    # long tasks first (budget hint), deterministic order otherwise
    import random
    rnd = random.Random(seed)
    order = list(range(len(tasks)))
    rnd.shuffle(order)
    tasks = [tasks[i] for i in order]
    results = []
    if a.jobs <= 1 or len(tasks) == 1:
        for t in tasks:
            results.append(run_task(t))
    else:
        with mp.get_context('fork').Pool(min(a.jobs, len(tasks)), maxtasksperchild=8) as pool:
            for r in pool.imap_unordered(run_task, tasks, chunksize=1):
                results.append(r)
                if os.environ.get('VERIF_VERBOSE'):
                    print('  task %s %s: paths=%d wall=%.0fs %s' % (r['obligation'], r['params'], r['paths'], r['wall_s'], r['inconclusive'] or ''), flush=True)
    results.sort(key=lambda r: (r['obligation'], json.dumps(r['params'], sort_keys=True)))

    viol = [v for r in results for v in r['violations']]
    spur = [v for r in results for v in r['spurious']]
    inconc = [(r['obligation'], r['params'], r['inconclusive']) for r in results if r['inconclusive']]
    inconc += [(r['obligation'], r['params'], 'symbolic path holds but its concrete replay does not: %s' % r['sample_mismatch']) for r in results if r.get('sample_mismatch')]
    inconc += [(r['obligation'], r['params'], 'cvc5 disagrees with z3 (sat vs unsat) on a deciding query over clauses %s' % d) for r in results for d in r['xdisagree']]
    known = {}
    for r in results:
        for k in r['known']:
            if prop in k['properties']:
                known.setdefault(k['id'], k)
    per_ob = {}
    for r in results:
        d = per_ob.setdefault(r['obligation'], dict(tasks=0, paths=0, queries=0, decided=0, nontrivial=0,
                                                    solver_s=0.0, wall_s=0.0, violations=0, clauses=set()))
        d['tasks'] += 1
        for k in ('paths', 'queries', 'decided', 'nontrivial'):
            d[k] += r[k]
        d['solver_s'] += r['solver_s']
        d['wall_s'] += r['wall_s']
        d['violations'] += len(r['violations'])
        d['clauses'] |= set(r['clauses'])
    vacuous = [n for n, d in per_ob.items() if d['nontrivial'] == 0 and not any(i[0] == n for i in inconc)]

    # ---- report -------------------------------------------------------------------------
    rc = 0
    for n, d in sorted(per_ob.items()):
        print('%-14s tasks=%-3d paths=%-7d queries=%-8d nontrivial=%-6d solver=%.1fs wall=%.1fs %s' % (
            n, d['tasks'], d['paths'], d['queries'], d['nontrivial'], d['solver_s'], d['wall_s'],
            'VIOLATED' if d['violations'] else 'ok'))
    for k in known.values():
        print('KNOWN-FINDING: property=%s %s [%s]%s' % (prop, k['what'], k['id'], '' if k['replayed'] else ' (replay did not reproduce!)'))
        if not k['replayed']:
            inconc.append((k['id'], {}, 'known finding region matched symbolically but its replay did not reproduce'))
    if viol:
        rc = 1
        rdir = os.path.join(VERIF, 'replays', prop)
        os.makedirs(rdir, exist_ok=True)
        seen = set()
        for v in viol:
            key = (v['obligation'], v['clause'])
            body = dict(property=prop, obligation=v['obligation'], params=v['params'], clause=v['clause'],
                        inputs=v['inputs'], observations=v['obs'])
            hsh = hashlib.sha1(json.dumps(body, sort_keys=True).encode()).hexdigest()[:10]
            path = os.path.join(rdir, '%s-%s-%s.json' % (v['obligation'], v['clause'], hsh))
            if key in seen:
                continue
            seen.add(key)
            json.dump(body, open(path, 'w'), indent=1, sort_keys=True)
            print('VIOLATION property=%s replay=%s' % (prop, path))
            print('  obligation=%s clause=%s params=%s inputs=%s' % (v['obligation'], v['clause'], v['params'], json.dumps(v['inputs'], sort_keys=True)))
            print('  observed (concrete replay on the real code): %s' % json.dumps(v['obs'], sort_keys=True)[:1500])
    if rc == 0 and (spur or inconc or vacuous):
        rc = 2
        for s in spur:
            print('INCONCLUSIVE: model did not reproduce concretely: %s %s %s inputs=%s replay=%s' % (
                s['obligation'], s['clause'], s['params'], json.dumps(s['inputs'], sort_keys=True), s.get('replay_result')))
        for i in inconc:
            print('INCONCLUSIVE: %s %s: %s' % i)
        for v in vacuous:
            print('INCONCLUSIVE: obligation %s is vacuous (no path satisfies its antecedent)' % v)

    # ---- evidence -------------------------------------------------------------------------
    wall = time.time() - t0
    if not a.no_evidence and not a.only:
        funcs = {}
        for r in results:
            funcs.update(r['functions'])
        samples = []
        for r in results:
            samples.extend(r['samples'][:1])
        samples = samples[:12]
        ev = dict(
            property_id=prop, tier=a.tier if a.tier in ('quick', 'thorough') else 'quick', seed=seed, level='other',
            coverage=dict(
                explanation=('bounded symbolic verification of the real code: every feasible path of each obligation '
                             'harness was executed on real pysyncobj objects with z3-backed proxy values; on every path '
                             'each oracle clause C was decided by the query path_condition AND NOT C (unsat = holds for all '
                             'values within the bounds); sat models are replayed with plain Python values before a VIOLATION is printed'),
                evaluations=sum(d['decided'] for d in per_ob.values()),
                distinct_nontrivial=sum(d['nontrivial'] for d in per_ob.values()),
                rule=('evaluations = deciding solver queries (path_condition AND NOT(all oracle clauses) per feasible path, plus one per clause where that is sat); distinct_nontrivial = '
                      'feasible paths (distinct decision sequences) on which the obligation antecedent is satisfiable'),
                paths=sum(d['paths'] for d in per_ob.values()),
                solver_queries=sum(d['queries'] for d in per_ob.values()),
                solver_seconds=round(sum(d['solver_s'] for d in per_ob.values()), 2),
                solver='z3 %s' % z3.get_version_string(),
                cross_solver=dict(solver='cvc5 (python wheel)', policy='first two deciding queries of every task, then every 50th (quick) / 10th (thorough)',
                                  queries_rechecked=sum(r['xchecked'] for r in results), agree=sum(r['xagree'] for r in results),
                                  unknown_or_error=sum(r['xunknown'] for r in results), disagree=sum(len(r['xdisagree']) for r in results)),
                obligations=len(per_ob),
                discharged=sum(1 for n, d in per_ob.items() if not d['violations'] and not any(i[0] == n for i in inconc)),
                per_obligation={n: dict(doc=registry.OBLIGATIONS[n].doc, bounds=registry.OBLIGATIONS[n].bounds,
                                        stubs=list(registry.OBLIGATIONS[n].stubs), clauses=sorted(d['clauses']),
                                        tasks=d['tasks'], paths=d['paths'], solver_queries=d['queries'],
                                        deciding_queries=d['decided'], nontrivial_paths=d['nontrivial'],
                                        solver_seconds=round(d['solver_s'], 2), cpu_wall_seconds=round(d['wall_s'], 2),
                                        verdict='violated' if d['violations'] else 'holds within bounds')
                                for n, d in sorted(per_ob.items())},
                sample_paths_replayed_concretely=sum(r.get('sample_replays', 0) for r in results),
                functions_encoded=funcs,
                repo_digest=_repo_digest(),
                known_findings_matched=sorted(known),
                inconclusive=[list(map(str, i)) for i in inconc],
                samples=samples,
                exhaustive=False,
            ),
            assumptions=[
                'bounds per obligation as listed in coverage.per_obligation[*].bounds; anything larger is outside the claim',
                'environment stubs listed per obligation (clock, random, transport, codecs, files) behave per their stated contract',
                'pre-states range over the well-formedness predicate of DESIGN.md 3.1, a superset of the reachable states',
                'checks execute /repo under python3-vt (3.11); the test-suite runs under /venv (3.12); the code is version-agnostic pure Python',
                'z3 is trusted (unknown is never treated as a pass)',
            ],
            wall_s=round(wall, 2),
            violations=len(viol),
        )
        os.makedirs(os.path.join(VERIF, 'evidence'), exist_ok=True)
        json.dump(ev, open(os.path.join(VERIF, 'evidence', '%s.json' % prop), 'w'), indent=1, sort_keys=True)
    print('%s tier=%s obligations=%d tasks=%d paths=%d wall=%.1fs -> %s' % (
        prop, a.tier, len(per_ob), len(tasks), sum(d['paths'] for d in per_ob.values()), wall,
        {0: 'HOLDS (within bounds)', 1: 'VIOLATION', 2: 'INCONCLUSIVE'}[rc]))
    return rc


if __name__ == '__main__':
    try:
        rc = main()
    except SystemExit:
        raise
    except BaseException:
        traceback.print_exc()
        print('INCONCLUSIVE: the harness itself failed (see traceback); no verdict')
        rc = 2
    sys.exit(rc)
