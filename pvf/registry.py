"""pvf.registry -- obligations: one Python function = one symbolic harness + its oracle."""
import importlib
import pkgutil

OBLIGATIONS = {}     # name -> Ob
ORDER = []


class Ob:
    def __init__(self, name, fn, props, quick, thorough, doc, stubs, bounds, budget):
        self.name, self.fn, self.props = name, fn, tuple(props)
        self.quick, self.thorough = quick, thorough
        self.doc, self.stubs, self.bounds, self.budget = doc, stubs, bounds, budget

    def params(self, tier):
        return self.thorough if tier == 'thorough' else self.quick


def obligation(name, props, quick, thorough=None, stubs=(), bounds='', budget=200000):
    """register fn(inp, **params) -> Res.  quick/thorough: lists of parameter dicts
    (one task per dict).  props: the properties this obligation is evidence for."""
    def deco(fn):
        if name in OBLIGATIONS:
            raise RuntimeError('duplicate obligation %s' % name)
        OBLIGATIONS[name] = Ob(name, fn, props, list(quick), list(thorough if thorough is not None else quick),
                               (fn.__doc__ or '').strip(), tuple(stubs), bounds, budget)
        ORDER.append(name)
        return fn
    return deco


class Res:
    """what one path of an obligation returns.
    clauses: name -> bool | SymBool  (must hold on this path for all inputs)
    nontrivial: bool | SymBool        (antecedent: the path exercises the property)
    obs: JSON-able summary of the path (for evidence samples / replay output)
    vars: name -> proxy/python value usable in known-finding region expressions
    """

    def __init__(self, clauses, nontrivial=True, obs=None, vars=None):
        self.clauses, self.nontrivial = clauses, nontrivial
        self.obs, self.vars = obs or {}, vars or {}


def load_all():
    import pvf.obligations as pkg
    for m in sorted(pkgutil.iter_modules(pkg.__path__), key=lambda m: m.name):
        importlib.import_module('pvf.obligations.' + m.name)
    return OBLIGATIONS


def for_property(prop):
    load_all()
    return [OBLIGATIONS[n] for n in ORDER if prop in OBLIGATIONS[n].props]
