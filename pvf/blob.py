"""pvf.blob -- byte strings whose *sizes* are solver variables.

A Blob is a rope of segments (origin, lo, hi): bytes lo..hi of an abstract source blob
`origin`.  Lengths and slice bounds are SymInt terms, slicing follows Python's slice
normalisation exactly (negative and out-of-range bounds included).  Contents are never
inspected: two blobs are equal iff their normalised ropes are equal.  Literal bytes are
segments of origin ('lit', <bytes>) and can be materialised when their bounds are concrete.
"""
import z3
from . import core
from .core import SymInt, SymBool, Abort


def S(x):
    if isinstance(x, SymInt):
        return x
    if isinstance(x, bool):
        x = int(x)
    return SymInt(z3.IntVal(int(x)))


def _simp(x):
    x = S(x)
    return SymInt(z3.simplify(x.e), x.lo, x.hi)


def _conc(x):
    """int value if the term is a literal integer, else None"""
    if isinstance(x, int):
        return x
    e = z3.simplify(x.e)
    if z3.is_int_value(e):
        return e.as_long()
    return None


class Blob:
    __slots__ = ('segs',)

    def __init__(self, segs=()):
        self.segs = list(segs)

    # -- constructors -------------------------------------------------------------------
    @staticmethod
    def fresh(origin, length):
        return Blob([(origin, S(0), S(length))])

    @staticmethod
    def lit(b):
        b = bytes(b)
        if not b:
            return Blob()
        return Blob([(('lit', b), S(0), S(len(b)))])

    @staticmethod
    def coerce(x):
        if isinstance(x, Blob):
            return x
        if isinstance(x, (bytes, bytearray)):
            return Blob.lit(x)
        if isinstance(x, str) and x == '':
            return Blob()
        raise TypeError('cannot treat %r as blob' % type(x))

    # -- size ---------------------------------------------------------------------------
    def slen(self):
        t = S(0)
        for _, lo, hi in self.segs:
            t = t + (hi - lo)
        return _simp(t)

    def __len__(self):
        n = _conc(self.slen())
        if n is None:
            raise TypeError('len() of a symbolic-size Blob: the module under test must use symlen')
        return n

    def __bool__(self):
        return bool(self.slen() != 0)

    # -- concat -------------------------------------------------------------------------
    def __add__(self, o):
        try:
            o = Blob.coerce(o)
        except TypeError:
            return NotImplemented
        return Blob(self.segs + o.segs)

    def __radd__(self, o):
        try:
            o = Blob.coerce(o)
        except TypeError:
            return NotImplemented
        return Blob(o.segs + self.segs)

    # -- slicing ------------------------------------------------------------------------
    @staticmethod
    def _norm(i, n, default):
        if i is None:
            return S(default)
        i = S(i)
        if i < 0:
            i = i + n
            if i < 0:
                i = S(0)
        elif i > n:
            i = n
        return i

    def __getitem__(self, s):
        if not isinstance(s, slice):
            # single byte: only for concrete literal content
            b = self.tobytes()
            return b[s]
        assert s.step is None
        n = self.slen()
        a = self._norm(s.start, n, 0)
        b = self._norm(s.stop, n, n)
        if b <= a:
            return Blob()
        out = []
        cum = S(0)
        for origin, lo, hi in self.segs:
            ln = hi - lo
            if ln == 0:
                continue
            end = cum + ln
            if end <= a or cum >= b:
                cum = end
                continue
            s0 = lo + (a - cum) if a > cum else lo
            s1 = lo + (b - cum) if b < end else hi
            out.append((origin, _simp(s0), _simp(s1)))
            cum = end
        return Blob(out)

    # -- normal form and comparison ---------------------------------------------------------
    def normalized(self):
        merged = []
        for o, lo, hi in self.segs:
            if hi - lo == 0:
                continue
            if merged and merged[-1][0] == o and bool(merged[-1][2] == lo):
                merged[-1] = (o, merged[-1][1], hi)
            else:
                merged.append((o, lo, hi))
        # literal segments with concrete bounds: materialise and merge
        out = []
        for o, lo, hi in merged:
            if o[0] == 'lit':
                a, b = _conc(lo), _conc(hi)
                if a is not None and b is not None:
                    piece = o[1][a:b]
                    if out and out[-1][0][0] == 'lit' and _conc(out[-1][1]) == 0 and _conc(out[-1][2]) == len(out[-1][0][1]):
                        joined = out[-1][0][1] + piece
                        out[-1] = (('lit', joined), S(0), S(len(joined)))
                    else:
                        out.append((('lit', piece), S(0), S(len(piece))))
                    continue
            out.append((o, lo, hi))
        return out

    def same(self, other):
        """structural equality of normalised ropes (forks on symbolic bounds)"""
        try:
            other = Blob.coerce(other)
        except TypeError:
            return False
        a, b = self.normalized(), other.normalized()
        if len(a) != len(b):
            return False
        for (o1, l1, h1), (o2, l2, h2) in zip(a, b):
            if o1 != o2:
                return False
            if not (l1 == l2):
                return False
            if not (h1 == h2):
                return False
        return True

    def __eq__(self, other):
        return self.same(other)

    def __ne__(self, other):
        return not self.same(other)

    __hash__ = None

    def whole(self, origin, length=None):
        """is this blob exactly origin[0:length]?  (forks)"""
        n = self.normalized()
        if len(n) != 1 or n[0][0] != origin:
            return False
        if not (n[0][1] == 0):
            return False
        if length is None:
            return True
        return bool(n[0][2] == S(length))

    def sole_origin(self):
        """(origin, lo, hi) if the blob is one contiguous piece of one origin, else None"""
        n = self.normalized()
        if len(n) == 1:
            return n[0]
        return None

    def tobytes(self):
        n = self.normalized()
        if not n:
            return b''
        if len(n) == 1 and n[0][0][0] == 'lit' and _conc(n[0][1]) == 0 and _conc(n[0][2]) == len(n[0][0][1]):
            return n[0][0][1]
        raise TypeError('blob content is not concrete: %r' % self)

    def describe(self):
        return [(str(o), str(z3.simplify(lo.e)), str(z3.simplify(hi.e))) for o, lo, hi in self.segs]

    def __repr__(self):
        return 'Blob(%s)' % self.describe()


def symlen(x):
    if isinstance(x, Blob):
        return x.slen()
    return len(x)


def symrange(a, b=None, step=1, bound=None):
    """range() accepting proxies; forks once per iteration.  `bound` = unwinding bound."""
    if b is None:
        a, b = 0, a
    if not any(isinstance(v, SymInt) for v in (a, b, step)):
        for v in range(a, b, step):
            yield v
        return
    pos = a
    k = 0
    lim = bound if bound is not None else UNWIND['range']
    while pos < b:
        if k >= lim:
            UNWIND['hit'] = True
            core.CTX.aborted = True
            raise Abort()
        yield pos
        pos = pos + step
        k += 1


UNWIND = {'range': 9, 'hit': False}


def symord(x):
    if isinstance(x, Blob):
        return ord(x.tobytes())
    return ord(x)


def symint(x):
    if isinstance(x, SymInt):
        if not x.is_real():
            return x
        import math
        return SymInt(z3.ToInt(x.e), None if x.lo is None else math.floor(x.lo), None if x.hi is None else math.floor(x.hi))
    return int(x)
