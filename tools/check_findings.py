#!/usr/bin/env python3
"""Run every full-system demonstration under /verif/findings against a tree (default /repo).
Each demo exits 1 when the defect it was written for shows.  Demos of repaired defects must exit 0 on the repaired tree
(a few end in a set-up assertion of their own because the repaired code no longer follows their choreography: reported as
'choreography'); demos of known findings and of the recorded non-claims still exit 1.
usage: tools/check_findings.py [tree]"""
import glob
import os
import subprocess
import sys

OPEN = {'F-REJOIN': 'known finding', 'F-LATELOCK': 'known finding', 'F-LATELOCK2': 'known finding',
        'F-SILENTPEER': 'not claimed', 'F-BIGBATCH': 'not claimed (beyond C11 sizes)', 'F-ATTRSURVIVES': 'not claimed'}


def main():
    tree = sys.argv[1] if len(sys.argv) > 1 else '/repo'
    here = os.path.dirname(os.path.dirname(os.path.abspath(__file__)))
    bad = 0
    for f in sorted(glob.glob(os.path.join(here, 'findings', '*_demo.py'))):
        name = os.path.basename(f)[:-len('_demo.py')]
        try:
            p = subprocess.run(['/venv/bin/python', f], env=dict(os.environ, PYTHONPATH=tree, PYTHONDONTWRITEBYTECODE='1'),
                               stdout=subprocess.PIPE, stderr=subprocess.STDOUT, timeout=900)
            out, rc = p.stdout.decode(errors='replace'), p.returncode
        except subprocess.TimeoutExpired:
            out, rc = 'timeout', 124
        violated = 'PROPERTY VIOLATED' in out
        if name in OPEN:
            status = 'still shows (%s)' % OPEN[name] if violated else 'no longer shows'
        elif violated:
            status, bad = 'DEFECT IS BACK', bad + 1
        elif rc != 0:
            status = 'choreography no longer unfolds (exit %d, no violation)' % rc
        else:
            status = 'ok'
        print('%-18s %s' % (name, status))
    return 1 if bad else 0


if __name__ == '__main__':
    sys.exit(main())
