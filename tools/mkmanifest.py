#!/usr/bin/env python3
"""Regenerates /verif/MANIFEST.json from the table below and validates it against the schema."""
import json
import os
import sys

HERE = os.path.dirname(os.path.dirname(os.path.abspath(__file__)))

TECH = ('bounded symbolic execution of the real Python code with z3-backed proxy values: every feasible path of each '
        'step obligation is executed on real pysyncobj objects, each oracle clause is decided by the SMT query '
        'path_condition AND NOT clause, sat models are replayed concretely before a VIOLATION is printed')

TRUST = ('z3 5.1; the proxy executor pvf/core.py (validated by concrete replay of every counterexample and by the seeded '
         'changes in /verif/seeded); environment stubs listed per obligation in the evidence file (virtual clock, random, '
         'recording transport, codec/file stubs); pre-states range over the well-formedness predicate of DESIGN.md 3.1; '
         'bounds per obligation are in the evidence file; whole-cluster schedules are covered only through the paper '
         'induction argument of DESIGN.md section 4')

CHECKS = {
    'C01': dict(ref='5/C01', text='State-machine safety decided as step obligations from arbitrary well-formed states: follower append/consistency check/truncate-only-on-conflict (R1), no commit on unverified messages (RS), acknowledgement handling (R6), leader commit rule (R7), apply loop (R8) and snapshot/compaction steps; all values (terms, indices, commit fields, arguments) are solver variables within the stated bounds.'),
    'C02': dict(ref='5/C02', text='Callback contract decided per step: dispatch for every role/leader pointer (CB1), queue-full (CBQ), forwarded replies and leader change (CB3), apply-time callbacks with symbolic recorded terms (R8), raising commands (X1), sync wrapper (CB4).'),
    'C03': dict(ref='5/C03', text='Election safety as step obligations: vote-once / up-to-date / term discipline (E1), election start (E3), win only with a strict majority of current-term grants (E4), for cluster sizes 2-5 with both parities; relational three-node composition in the thorough tier.'),
    'C04': dict(ref='5/C04', text='Commit rule and monotone indices: R7 (majority of voters and current-term entry at the very step the commit index moves), R6 (matchIndex only from success replies), R1/RS (follower commit only over verified entries, never backwards), R8 (applied index).'),
    'C05': dict(ref='5/C05', text='Claimed part = the catch-up clause and the step-level liveness lemmas: one replication round from any Log-Matching-related pair of logs either fully matches the follower or strictly decreases nextIndex (PG, two real objects), rejection hints (R1), elections start when due (E3), the command queue drains in one dispatch (CB1), batches/chunks/snapshot chunks cover everything pending (A2, A3, S4), commit rule completeness (R7). NOT claimed: election convergence within a bounded number of timeouts and SUCCESS-after-heal over whole fault histories (long fair runs of randomised timers over the whole cluster are beyond bounded symbolic execution).'),
    'C06': dict(ref='5/C06', text='Journaled restart: acknowledged entries are on the (symbolic) disk at the instant the acknowledgement leaves (JR2), start-up reconciliation of journal and dump (JR3), journal-only restart re-applies the committed prefix once (JR4), kill between any two primitive writes of a journal operation / dump write (J3, S5), long tail drops (J5), what the dump holds (S12). Known findings F-HEADDROP, F-DUMPCLEAR, F-JOURNALONLY are reported as KNOWN-FINDING. Outside: fsync/page-cache durability, torn single writes, the fork serializer.'),
    'C07': dict(ref='5/C07', text='Vote/term across a restart: real node grants in a symbolic term, is restarted on its (symbolic-disk) journal and receives a second request of the same term (RST) - violated on the unchanged tree for every term >= 1 (known finding F-VOTEPERSIST: term and vote are not persisted); E1 keeps any other way of granting twice in a term visible.'),
    'C08': dict(ref='5/C08', text='File journal vs. in-memory journal on a symbolic disk: every operation sequence of bounded length with symbolic record sizes (J1, incl. file growth and close+reopen through the real parse loop) and kill-safety with a crash cut between any two primitive writes of one operation (J3).'),
    'C09': dict(ref='5/C09', text='Snapshots: what compaction captures and what loading restores, with symbolic indices/terms/user state, applies between snapshot and trim, member set and consumers (S12, B2); chunked transfer with symbolic image and chunk sizes, interrupted by a disconnect or a newer snapshot at a symbolic chunk position (S4); kill at every primitive of the dump write / incoming transfer (S5); code version after load (V5). The fork variant is outside.'),
    'C10': dict(ref='5/C10', text='Membership: leader-side gate and one-at-a-time with the no-op and an earlier membership entry at symbolic positions (M1), member set = fold of the log across append / truncation / re-send / apply on followers (M3), admin entry points (MA), member set in snapshots (S12).'),
    'C11': dict(ref='5/C11', text='Arguments of any size: packing with every mix of positional/keyword/control arguments (A1), size batching partitions nextIndex..lastIdx (A2), chunked transfer of a command of symbolic length n >= batch size through the real sender and the real follower handler (A3), journal growth (J1) and TCP framing of any length (T1).'),
    'C12': dict(ref='5/C12', text='Raising replicated methods (symbolic predicate decides which commands raise) through the real apply loop: no escape, no stall, callbacks once (X1) - the unchanged tree violates this (known finding F-RAISE); clauses that hold regardless keep other violations visible.'),
    'C13': dict(ref='5/C13', text='TCP framing through two real TcpConnection objects on a symbolic byte stream: symbolic frame lengths, receive-buffer size, short writes/EAGAIN and fragmentation (T1), corrupted length field (any 32-bit value) or payload (T2), disconnect (T3).'),
    'C14': dict(ref='5/C14', text='Claimed at step level over the real TCPTransport + TcpConnection on symbolic sockets and clocks: who dials (N1), incoming handshake, stranger rejection and source attribution incl. removed members (N2), unique identities of read-only peers under join/leave/re-join (N2r), dropNode (N3), reconnect throttle with symbolic times (N4), read timeout and truthful send() (N5), reuse of a dialling connection object (T4). NOT claimed: the whole-run statement "exactly one working connection within bounded time after any fault sequence" (long fault schedules on two event loops).'),
    'C15': dict(ref='5/C15', text='Every public battery method against the Python container it mimics for all operation sequences of bounded length with symbolic elements/positions/values (B1) and snapshot round trip of every battery (B2).'),
    'C16': dict(ref='5/C16', text='Replicated locks with unbounded real-valued clocks: mutual exclusion across replicas that lag by up to k commands (K1), late-acquisition rule of tryAcquire (K2), expiry / release / prolongation semantics (K3).'),
    'C17': dict(ref='5/C17', text='Code versions: id stability over generated class shapes (V1, exhaustive enumeration), dispatch to the greatest version <= the symbolic enabled version (V2), setCodeVersion validation (V3), unsupported VERSION entry inside a committed batch (V4), name table after loading a snapshot (V5).'),
    'C18': dict(ref='5/C18', text='Read-only nodes: never vote / start elections (E1, E3 with no own address), observers\' matchIndex/response times are free solver variables absent from the commit and fallback oracles (R7), forwarding follows CB1.'),
    'C20': dict(ref='5/C20', text='Leader fallback: after a tick the node is still leader iff a strict majority of voters answered within the fallback timeout (symbolic real clock and timeout, N=2..5, observers present), non-leaders never commit (F3), acknowledgement times only from real replies (R6), hasQuorum (F4).'),
}

NA = {
    'C19': 'real thread interleavings of application threads against the tick thread cannot be expressed in a single-threaded path-based symbolic executor and no installed solver front-end controls the CPython scheduler (DESIGN.md 5/C19); the sequential part of the sync wrapper is decided as obligation CB4 under C02',
}

PENDING = 'check under construction in this session (see DESIGN.md section 5 for the planned obligations); not claimed until its quick command passes on the unchanged tree'


def main():
    props = [json.loads(l)['id'] for l in open(os.path.join(HERE, 'properties.jsonl'))]
    checks = []
    for pid in props:
        if pid not in CHECKS:
            continue
        c = CHECKS[pid]
        checks.append(dict(
            property_id=pid,
            quick_cmd='./check %s --tier quick' % pid,
            thorough_cmd='./check %s --tier thorough' % pid,
            evidence_file='evidence/%s.json' % pid,
            replay_cmd_template='./check --replay {path}',
            engine='pvf',
            level_claimed=dict(category='other', text=c['text'] + ' Bounded: holds for every value inside the bounds listed in the evidence file; nothing is claimed outside them.',
                               design_ref='DESIGN.md section ' + c['ref']),
            level_note=TRUST,
            technique=TECH,
        ))
    na = [dict(property_id=p, reason=NA.get(p, PENDING)) for p in props if p not in CHECKS]
    m = dict(
        version=1,
        setup_cmd='python3-vt -c "import z3, sys; sys.path[:0]=[\'/verif\', \'/repo\']; import pvf.run, pysyncobj; print(\'pvf ready, z3\', z3.get_version_string())"',
        hooks=dict(guard='PYSYNCOBJ_VERIF', enable='none needed: state is injected through public constructor parameters, name-mangled attributes and module-namespace shadowing done by the harness; no hook commit exists in /repo',
                   baseline_off_cmd='cd /repo && /venv/bin/python -m pytest -ra -q -p no:cacheprovider --timeout=900 --continue-on-collection-errors',
                   source_commits=[], add_only=True),
        engines=[dict(name='pvf', path='pvf/', serves_properties=sorted(CHECKS),
                      kind_free_text='z3-proxy symbolic executor over the real pysyncobj code (DFS over feasible paths by re-execution), with concrete replay of every counterexample')],
        checks=checks,
        notes='Exit codes: 0 holds within bounds (KNOWN-FINDING lines for listed findings), 1 replayed VIOLATION, 2 inconclusive (never prints VIOLATION). Known findings and fixed defects: known_findings.json. Seeded changes used to validate the checks: seeded/.',
        not_applicable=na,
    )
    out = os.path.join(HERE, 'MANIFEST.json')
    json.dump(m, open(out, 'w'), indent=1)
    try:
        import jsonschema
        jsonschema.validate(m, json.load(open('/root/.vp/MANIFEST.schema.json')))
        print('MANIFEST.json valid; claimed:', ' '.join(sorted(CHECKS)), '| not applicable:', ' '.join(x['property_id'] for x in na))
    except ImportError:
        print('jsonschema not available; written without validation')


if __name__ == '__main__':
    main()
