#!/usr/bin/env python3
"""Writes seeded/INDEX.md from seeded/*/meta.json."""
import glob
import json
import os

HERE = os.path.dirname(os.path.dirname(os.path.abspath(__file__)))
rows = []
for d in sorted(glob.glob(os.path.join(HERE, 'seeded', '*', 'meta.json'))):
    m = json.load(open(d))
    viol = sorted(set(v.split('replay=')[1].split('/')[-1].rsplit('-', 1)[0] for r in m['checks'].values() for v in r['violations']))
    rows.append('| %s | %s | %s | %s | %s | demo %s -> %s; suite: %s |' % (
        m['id'], m.get('property', ''), (m.get('summary') or '').replace('\n', ' ').replace('|', '/')[:160],
        (m.get('needs') or '').replace('\n', ' ').replace('|', '/')[:160], ', '.join(m['caught_by']) + ' (' + ', '.join(viol[:3]) + ')',
        m.get('demo_clean_exit'), m.get('demo_changed_exit'), (m.get('suite_confirmed') or m.get('suite') or 'see meta')[:60]))
with open(os.path.join(HERE, 'seeded', 'INDEX.md'), 'w') as f:
    f.write('# Seeded changes\n\nEach directory holds `patch.diff` (apply with `git -C /repo apply`), `demo.py` (exits 0 on the clean tree, non-zero with the patch; '
            'run with `PYTHONPATH=<tree> /venv/bin/python demo.py`) and `meta.json` (what the change is, what it needs to manifest, what was run, which checks caught it).\n\n'
            '| id | property | change | needs | caught by (clauses) | confirmation |\n|---|---|---|---|---|---|\n')
    f.write('\n'.join(rows) + '\n')
print(len(rows), 'seeds indexed')
