#!/usr/bin/env python3
"""Evaluate one seeded change: confirm its demonstration both ways in the scratch worktree, run the
registered quick checks against /repo with the change applied (and undo it straight afterwards), and
store it under /verif/seeded/<id>/.

usage: seed_eval.py <seed-id> <worktree> <n> <prop>[,<prop>...] [--suite]
   <worktree>/m<n>.diff, demo<n>.py, meta<n>.json are the sub-agent's deliverables.
"""
import json
import os
import shutil
import subprocess
import sys
import time

VERIF = os.path.dirname(os.path.dirname(os.path.abspath(__file__)))
# SEED_REPO: a scratch checkout of /repo's HEAD to patch instead of /repo itself (used while a long check of /repo is running)
REPO = os.environ.get('SEED_REPO', '/repo')


def sh(cmd, cwd=None, timeout=3600, env=None):
    p = subprocess.run(cmd, shell=True, cwd=cwd, stdout=subprocess.PIPE, stderr=subprocess.STDOUT, timeout=timeout, env=env)
    return p.returncode, p.stdout.decode(errors='replace')


def main():
    sid, wt, n, props = sys.argv[1], sys.argv[2], sys.argv[3], sys.argv[4].split(',')
    run_suite = '--suite' in sys.argv
    diff, demo, meta = [os.path.join(wt, f % n) for f in ('m%s.diff', 'demo%s.py', 'meta%s.json')]
    out = dict(id=sid, properties=props, ran=[])
    env = dict(os.environ, PYTHONPATH=wt, PYTHONDONTWRITEBYTECODE='1')
    # 1. demonstration both ways in the scratch worktree
    sh('git checkout -- pysyncobj', cwd=wt)
    rc0, o0 = sh('/venv/bin/python %s' % demo, cwd=wt, timeout=900, env=env)
    rc, _ = sh('git apply %s' % diff, cwd=wt)
    assert rc == 0, 'patch does not apply in the worktree'
    rc1, o1 = sh('/venv/bin/python %s' % demo, cwd=wt, timeout=900, env=env)
    out['demo_clean_exit'], out['demo_changed_exit'] = rc0, rc1
    out['demo_changed_tail'] = o1.strip().splitlines()[-3:]
    out['ran'].append('demo on clean worktree -> exit %d; with patch -> exit %d' % (rc0, rc1))
    if run_suite:
        rcs, os_ = sh('/root/mut/run_suite.sh %s' % wt, timeout=2400)
        out['suite'] = os_.strip().splitlines()[-1]
        out['ran'].append('/root/mut/run_suite.sh (repository test-suite in an isolated netns) with patch -> %s' % out['suite'])
    sh('git checkout -- pysyncobj', cwd=wt)
    # 2. checks against /repo with the change applied
    if REPO != '/repo':
        sh('git -C %s reset -q --hard; git -C %s checkout -q --detach main; git -C %s clean -fdq' % (REPO, REPO, REPO))
    assert sh('git -C %s status --porcelain' % REPO)[1].strip() == '', '/repo is not clean'
    rc, o = sh('git -C %s apply %s' % (REPO, diff))
    if rc != 0:
        rc, o = sh('git -C %s apply --3way %s' % (REPO, diff))
        if rc != 0:
            sh('git -C %s reset -q --hard HEAD' % REPO)
    assert rc == 0, 'patch does not apply to /repo: ' + o
    res = {}
    try:
        for p in props:
            t = time.time()
            rc, o = sh('./check %s --tier quick --no-evidence' % p, cwd=VERIF, timeout=3600, env=dict(os.environ, REPO=REPO))
            viol = [l for l in o.splitlines() if l.startswith('VIOLATION')]
            detail = [l.strip() for l in o.splitlines() if l.strip().startswith('obligation=')]
            res[p] = dict(exit=rc, violations=viol[:6], detail=[d[:300] for d in detail[:4]], wall_s=round(time.time() - t, 1),
                          tail=o.strip().splitlines()[-1])
            out['ran'].append('./check %s --tier quick with patch applied to /repo -> exit %d (%d VIOLATION lines)' % (p, rc, len(viol)))
    finally:
        sh('git -C %s reset -q --hard HEAD' % REPO)
    out['checks'] = res
    out['caught_by'] = sorted(p for p, r in res.items() if r['exit'] == 1 and r['violations'])
    d = os.path.join(VERIF, 'seeded', sid)
    os.makedirs(d, exist_ok=True)
    shutil.copy(diff, os.path.join(d, 'patch.diff'))
    shutil.copy(demo, os.path.join(d, 'demo.py'))
    m = json.load(open(meta)) if os.path.exists(meta) else {}
    m.update(out)
    json.dump(m, open(os.path.join(d, 'meta.json'), 'w'), indent=1)
    print(json.dumps(dict(id=sid, demo=(rc0, rc1), caught_by=out['caught_by'], suite=out.get('suite'),
                          checks={p: (r['exit'], r['tail']) for p, r in res.items()}), indent=1))


if __name__ == '__main__':
    main()
