#!/usr/bin/env python3
"""
finding1.py - C16: two clients hold the same replicated lock at the same instant (clocks agree).

Root cause: _ReplLockManagerImpl.acquire (re-acquisition by the holder) and .prolongate overwrite the lock's
time stamp with the time stamp carried by the command, even when that one is OLDER than the stored one
(pysyncobj/batteries.py:423-425 and :438-439).  A command of the holder that was delayed on its way (here: the
first tryAcquire and the first automatic prolongation, forwarded by a read-only node to a leader that lost and
later regained leadership while the frame was still in flight on the live TCP connection) is appended behind the
holder's newer commands and moves the lease BACK in time.  The voters then consider the lock expired earlier
than the holder does (its replica lags: it is partitioned, which is exactly the situation the lease time is
meant to cover), and hand the lock to a second client while the first one still, and rightly, trusts its lease.

Only real-network behaviour is used: message delay on a live connection (in order, nothing dropped on it),
connection loss (everything in flight dropped), a crashed node, arbitrary timing.  Real SyncObj objects, real
ReplLockManager objects, in-memory transport, virtual clock.  The auto-prolongation thread of ReplLockManager
is replaced by a step function that executes the thread's loop body (batteries.py:497-504) on the virtual
clock, so the run is deterministic.

Exit code 1 + 'PROPERTY VIOLATED: C16 ...' when the defect shows, 0 otherwise.
"""
import sys, os, random, pickle, collections, logging

sys.path.insert(0, os.path.dirname(os.path.abspath(__file__)))
logging.disable(logging.CRITICAL)

import pysyncobj.syncobj as so
import pysyncobj.batteries as batteries
from pysyncobj import SyncObj, SyncObjConf, FAIL_REASON
from pysyncobj.batteries import ReplLockManager
from pysyncobj.transport import Transport
from pysyncobj.node import Node, TCPNode

U = 10.0          # autoUnlockTime
T0 = 1000.0       # virtual epoch


# ---------------------------------------------------------------- virtual clock (shared by all nodes: clocks agree)
class Clock(object):
    now = T0

    def __call__(self):
        return Clock.now


class FakeTimeModule(object):
    @staticmethod
    def time():
        return Clock.now

    @staticmethod
    def sleep(x):
        import time as _t
        _t.sleep(0.001)


so.monotonicTime = Clock()
batteries.time = FakeTimeModule      # ReplLockManager uses time.time()


# ---------------------------------------------------------------- in-memory network with TCP semantics
class Net(object):
    def __init__(self):
        self.tr = {}
        self.up = {}
        self.q = collections.OrderedDict()
        self.roCounter = collections.defaultdict(int)
        self.held = set()      # directed links whose frames are delayed (still in order, nothing lost)

    def connect(self, a, b):
        key = frozenset((a, b))
        if self.up.get(key):
            return
        self.up[key] = True
        self.q[(a, b)] = collections.deque()
        self.q[(b, a)] = collections.deque()
        for x, y in ((self.tr[a], self.tr[b]), (self.tr[b], self.tr[a])):
            if y.readonly:   # what TCPTransport does for an incoming 'readonly' connection
                node = Node(str(self.roCounter[x.name]))
                self.roCounter[x.name] += 1
                x.peer[y.name] = node
                x.names[node] = y.name
                x._onReadonlyNodeConnected(node)
            else:
                node = TCPNode(y.name)
                x.peer[y.name] = node
                x.names[node] = y.name
                x._onNodeConnected(node)

    def disconnect(self, a, b):
        key = frozenset((a, b))
        if not self.up.get(key):
            return
        self.up[key] = False
        self.q.pop((a, b), None)      # everything in flight is lost with the connection
        self.q.pop((b, a), None)
        for x, y in ((self.tr[a], self.tr[b]), (self.tr[b], self.tr[a])):
            node = x.peer.get(y.name)
            if node is None:
                continue
            if y.readonly:
                x.peer.pop(y.name)
                x.names.pop(node)
                x._onReadonlyNodeDisconnected(node)
            else:
                x._onNodeDisconnected(node)

    def deliverAll(self):
        progress = True
        while progress:
            progress = False
            for k in list(self.q):
                if k in self.held:
                    continue
                while self.q.get(k):
                    raw = self.q[k].popleft()
                    src, dst = k
                    t = self.tr[dst]
                    t._onMessageReceived(t.peer[src], pickle.loads(raw))
                    progress = True


class SimTransport(Transport):
    def __init__(self, net, name, readonly):
        Transport.__init__(self, None, None, [])
        self.net, self.name, self.readonly = net, name, readonly
        self.peer, self.names = {}, {}
        net.tr[name] = self

    def send(self, node, message):
        name = self.names.get(node)
        if name is None and node.id in self.net.tr:
            name = node.id
        if name is None or not self.net.up.get(frozenset((self.name, name))):
            return False
        self.net.q[(self.name, name)].append(pickle.dumps(message))
        return True


def makeLockManager(selfID):
    lm = ReplLockManager(autoUnlockTime=U, selfID=selfID)
    # Stop the real-time thread before the manager is attached to a SyncObj (it cannot have done anything yet);
    # its loop body is executed by autoProlongStep() below on the virtual clock.
    lm.destroy()
    lm._ReplLockManager__thread.join()
    return lm


def autoProlongStep(lm):
    """One iteration of ReplLockManager._autoAcquireThread (batteries.py:497-504)."""
    now = Clock.now
    if now - lm._ReplLockManager__lastProlongateTime < float(U) / 4.0:
        return
    syncObj = lm._ReplLockManager__lockImpl._syncObj
    if syncObj is None:
        return
    if syncObj._getLeader() is not None:
        lm._ReplLockManager__lastProlongateTime = now
        lm._ReplLockManager__lockImpl.prolongate(lm._ReplLockManager__selfID, now)


def installSuggestedRepair():
    """--with-repair: monkeypatches (the library source stays untouched) acquire/prolongate so that the time
    stamp of a lock never moves backwards; with it the same schedule shows no violation."""
    Impl = batteries._ReplLockManagerImpl

    def locksOf(self):
        return self._ReplLockManagerImpl__locks

    def autoUnlockOf(self):
        return self._ReplLockManagerImpl__autoUnlockTime

    def acquireFixed(self, lockID, clientID, currentTime):
        locks = locksOf(self)
        existing = locks.get(lockID, None)
        if existing is not None and currentTime - existing[1] > autoUnlockOf(self):
            existing = None
        if existing is None:
            locks[lockID] = (clientID, currentTime)
            return True
        if existing[0] == clientID:
            locks[lockID] = (clientID, max(existing[1], currentTime))
            return True
        return False

    def prolongateFixed(self, clientID, currentTime):
        locks = locksOf(self)
        for lockID in list(locks):
            lockClientID, lockTime = locks[lockID]
            if currentTime - lockTime > autoUnlockOf(self):
                del locks[lockID]
                continue
            if lockClientID == clientID:
                locks[lockID] = (clientID, max(lockTime, currentTime))

    def makeWrapper(orig, fixed):
        def wrapper(self, *args, **kwargs):
            if kwargs.pop('_doApply', False):
                return fixed(self, *args, **kwargs)
            return orig(self, *args, **kwargs)
        wrapper.__dict__.update(orig.__dict__)     # (replicated / ver / origName markers)
        return wrapper

    for name, fixed in (('acquire_v0', acquireFixed), ('prolongate_v0', prolongateFixed)):
        setattr(Impl, name, makeWrapper(getattr(Impl, name), fixed))


def scenario(seed):
    random.seed(seed)
    Clock.now = T0
    net = Net()
    voters = ['v1:1', 'v2:1', 'v3:1']
    RO = 'ro'
    objs, lms = {}, {}
    for name in voters + [RO]:
        readonly = name == RO
        lms[name] = makeLockManager('client-' + name)
        conf = SyncObjConf(autoTick=False, leaderFallbackTimeout=30.0, commandsWaitLeader=True)
        tr = SimTransport(net, name, readonly)
        objs[name] = SyncObj(None if readonly else name, voters if readonly else [v for v in voters if v != name],
                             conf=conf, consumers=[lms[name]], transport=tr)
    names = voters + [RO]
    for i, a in enumerate(names):
        for b in names[i + 1:]:
            net.connect(a, b)
    alive = set(names)

    def run(duration, dt=0.05):
        end = Clock.now + duration - 1e-9
        while Clock.now < end:
            Clock.now += dt
            for n in names:
                if n in alive:
                    autoProlongStep(lms[n])
                    objs[n]._onTick(0.0)
            net.deliverAll()

    def leader():
        ls = [v for v in voters if v in alive and objs[v]._isLeader()]
        return ls

    def t():
        return Clock.now - T0

    # ---- phase 0: a first leader L1
    run(3.0)
    if len(leader()) != 1:
        return None
    L1 = leader()[0]
    X, Y = [v for v in voters if v != L1]
    if objs[RO]._getLeader() is None or objs[RO]._getLeader().id != L1:
        return None
    base = Clock.now         # times of the story are relative to this instant

    def rel():
        return Clock.now - base

    A, B = lms[RO], lms[L1]
    resA1, resA2, resB = [], [], []

    def runUntil(cond, limit, dt=0.05):
        end = Clock.now + limit
        while Clock.now < end:
            if cond():
                return True
            run(dt, dt)
        return cond()

    # ---- t=0: the connection ro <-> L1 starts to stall in both directions (frames stay queued in order,
    #      nothing is lost, the connection stays up).  At the same moment L1 loses its connections to the
    #      other voters.  The application on ro calls tryAcquire('L'): the command is forwarded to L1 (stalled).
    net.held.add((RO, L1))
    net.held.add((L1, RO))
    net.disconnect(L1, X)
    net.disconnect(L1, Y)
    A.tryAcquire('L', callback=lambda r, e: resA1.append((r, e, rel())))       # attempt time = 0

    # ---- the other voters elect a new leader L2 (next term); ro follows it and reports the first
    #      tryAcquire as failed (LEADER_CHANGED)
    if not runUntil(lambda: objs[RO]._getLeader().id != L1, 3.0):
        return None
    L2 = objs[RO]._getLeader().id
    L3 = Y if L2 == X else X
    if not resA1 or resA1[0][0]:
        return None

    # ---- L1 gets its connections to the voters back and follows L2
    net.connect(L1, X)
    net.connect(L1, Y)
    run(0.2)
    if objs[L1]._isLeader() or not objs[L2]._isLeader():
        return None

    # ---- the application on ro retries; this time the lock is acquired normally through L2
    tAcq = rel()
    A.tryAcquire('L', callback=lambda r, e: resA2.append((r, e, rel())))
    runUntil(lambda: resA2, 1.0)
    if not resA2 or resA2[0][:2] != (True, FAIL_REASON.SUCCESS):
        return None
    assert A.isAcquired('L')
    # A was told: you hold 'L'.  Without any further contact its lease runs until tAcq + U.

    # ---- L2 crashes; L1 wins the next election (with the vote of L3)
    for n in names:
        if n != L2:
            net.disconnect(L2, n)
    alive.discard(L2)
    if not runUntil(lambda: len(leader()) == 1, 3.0):
        return None
    if leader() != [L1]:
        return None            # (L3 won this election: not the schedule we are after, other seed)

    # ---- the stalled frames of ro (prolongate(A, ~0), acquire(A, 0), acks) finally reach L1, which is leader
    #      again: it appends them behind acquire(A, tAcq).  Right after that ro loses its connections (the frames
    #      that were stalled in the direction L1 -> ro are lost with the connection).
    stall = rel()
    if stall >= 3.5:
        return None            # keep the stall below the default connectionTimeout of the stock TCP transport
    q = net.q[(RO, L1)]
    while q:
        raw = q.popleft()
        net.tr[L1]._onMessageReceived(net.tr[L1].peer[RO], pickle.loads(raw))
    net.disconnect(RO, L1)
    net.disconnect(RO, L3)
    run(0.5)
    tLost = stall

    # ---- B (on the leader) tries to get the lock as soon as the voters consider it expired
    while rel() < tAcq + U - 0.5 and not (resB and resB[-1][0]):
        resB[:] = []
        B.tryAcquire('L', callback=lambda r, e: resB.append((r, e, rel())))
        run(0.5)

    now = rel()
    aHolds = A.isAcquired('L')
    bHolds = B.isAcquired('L')
    info = dict(seed=seed, L1=L1, L2=L2, stall=round(stall, 2), tAcqA=round(tAcq, 2), A_result=resA2[0][:2], roPartitionedAt=round(tLost, 2),
                B_result=resB[-1] if resB else None, now=round(now, 2), A_isAcquired=aHolds, B_isAcquired=bHolds)
    return info


def main():
    if '--with-repair' in sys.argv:
        installSuggestedRepair()
    for seed in range(200):
        info = scenario(seed)
        if info is None:
            continue       # the elections of this seed did not produce the leader sequence L1, L2, L1
        print('schedule reached with', info)
        if info['A_isAcquired'] and info['B_isAcquired']:
            print('PROPERTY VIOLATED: C16 mutual exclusion - at t=%.2f both client-ro (acquired at t=%.2f, '
                  'autoUnlockTime %.0f, told SUCCESS) and client-%s (told SUCCESS at t=%.2f) consider lock \'L\' '
                  'held by themselves; clocks agree' % (info['now'], info['tAcqA'], U, info['L1'],
                                                         info['B_result'][2]))
            return 1
        print('no violation: at most one holder')
        return 0
    print('schedule not reached with any seed')
    return 0


if __name__ == '__main__':
    rc = main()
    sys.stdout.flush()
    os._exit(rc)
