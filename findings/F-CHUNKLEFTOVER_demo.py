#!/usr/bin/env python
"""
finding3 - C11 (low severity, needs a reconnect while a chunked command is on its way): pieces of a chunked
('transmission': start/process/finish) log entry that still arrive on a REPLACED connection are mixed into the
transmission that was restarted on the new connection; the follower's message handler raises
(TypeError: can only concatenate str (not "bytes") to str, or an unpickling error for other interleavings).

Why the old pieces can arrive after the reconnect: the node with the higher address connects, the other one
accepts. When the connecting side (here the leader a) gives a connection up (connectionTimeout during a
network hiccup) and opens a new one, TCPTransport._onIncomingMessageReceived on the accepting side (follower b)
just overwrites self._connections[node] (transport.py:372) - the old TcpConnection is neither closed nor
detached, its callback still is _onMessageReceived(node), so whatever the kernel still delivers on the old
socket (retransmitted tail of the big entry, then FIN) reaches SyncObj as messages of the same node, after
messages of the new connection. SyncObj keeps ONE receive buffer (syncobj.py:179 __recvTransmission = '' - a
str), does not tie it to a connection, and appends 'process'/'finish' data without checking that a 'start'
was seen (syncobj.py:923-930).

Schedule (3 nodes, batch size 100 bytes, command of 450 bytes -> start, 4 x process, finish):
  1. a is leader and sends the chunked entry to b. b receives the heartbeat and 'start' - the rest is delayed.
  2. a drops the connection to b and reconnects (b accepts; b gets no disconnect event, exactly like
     TCPTransport). a finds out that b lacks the entry and sends it again: start', process' x4, finish'.
  3. b receives start' (new connection), then the delayed process x4 + finish of the old connection (this
     completes the entry - same bytes), then process' of the new connection.
Expected (C11): no exception while receiving. Observed: TypeError escapes the message handler of b (in the
real transport: out of poller.poll() / _onTick()).

Exit code 1 + 'PROPERTY VIOLATED: C11 ...' when the defect shows, 0 otherwise.
"""
import sys, os, pickle as _pk, logging
sys.path.insert(0, os.path.dirname(os.path.abspath(__file__)))
import pysyncobj.syncobj as _so
from pysyncobj import SyncObj, SyncObjConf, replicated
from pysyncobj.node import Node
from pysyncobj.transport import Transport

logging.disable(logging.CRITICAL)


class Clock(object):
    now = 1000.0

    def __call__(self):
        return self.now


CLOCK = Clock()
_so.monotonicTime = CLOCK


class MemTransport(Transport):
    def __init__(self, net, selfId):
        Transport.__init__(self, None, None, None)
        self.net, self.selfId = net, selfId

    def send(self, node, message):
        return self.net.send(self.selfId, node.id, message)


class Net(object):
    """FIFO queue per direction of a link; a link is up or down; nothing is lost on a link that is up."""

    def __init__(self):
        self.objs, self.trs, self.up, self.q = {}, {}, set(), {}

    def add(self, nid, factory):
        self.trs[nid] = MemTransport(self, nid)
        self.objs[nid] = factory(self.trs[nid])

    def connect(self, a, b):
        self.up.add(frozenset((a, b)))
        self.q[(a, b)], self.q[(b, a)] = [], []
        self.trs[a]._onNodeConnected(Node(b))
        self.trs[b]._onNodeConnected(Node(a))

    def disconnect(self, a, b):
        # the connection is lost: everything in flight on it is lost with it
        self.up.discard(frozenset((a, b)))
        self.q[(a, b)], self.q[(b, a)] = [], []
        self.trs[a]._onNodeDisconnected(Node(b))
        self.trs[b]._onNodeDisconnected(Node(a))

    def send(self, src, dst, message):
        if frozenset((src, dst)) not in self.up:
            return False
        self.q[(src, dst)].append(_pk.dumps(message, 2))
        return True

    def deliverAll(self):
        busy = True
        while busy:
            busy = False
            for (s, d) in sorted(self.q):
                while self.q[(s, d)]:
                    busy = True
                    self.trs[d]._onMessageReceived(Node(s), _pk.loads(self.q[(s, d)].pop(0)))

    def run(self, seconds, only=None):
        t = 0.0
        while t < seconds:
            CLOCK.now += 0.05
            t += 0.05
            for i in (only or sorted(self.objs)):
                self.objs[i]._onTick(0.0)
            self.deliverAll()




import hashlib, traceback


class Obj(SyncObj):
    def __init__(self, *a, **k):
        super(Obj, self).__init__(*a, **k)
        self.seen = []

    @replicated
    def put(self, payload):
        self.seen.append(hashlib.md5(payload).hexdigest())


IDS = ['a', 'b', 'c']


def factory(i):
    def f(tr):
        conf = SyncObjConf(autoTick=False, connectionTimeout=1000, leaderFallbackTimeout=1000,
                           appendEntriesBatchSizeBytes=100)
        return Obj(Node(i), [Node(x) for x in IDS if x != i], conf=conf, transport=tr, nodeClass=Node)
    return f


def main():
    net = Net()
    for i in IDS:
        net.add(i, factory(i))
    A, B, C = [net.objs[i] for i in IDS]
    net.connect('a', 'b'); net.connect('a', 'c'); net.connect('b', 'c')
    t = 0
    while not A._isLeader() and t < 1000:
        net.run(0.05, only=['a'])
        t += 1
    assert A._isLeader()
    net.run(0.5)

    A.put(b'x' * 450)
    CLOCK.now += 0.05; A._onTick(0.0)            # appended to a's log
    CLOCK.now += 0.2; A._onTick(0.0)             # sent
    kinds = [_pk.loads(m).get('transmission') for m in net.q[('a', 'b')]]
    print('a -> b in flight:', kinds)
    assert kinds[-6:] == ['start', 'process', 'process', 'process', 'process', 'finish'], kinds
    # b reads everything up to and including 'start'; the rest is delayed on the old connection
    while True:
        m = _pk.loads(net.q[('a', 'b')].pop(0))
        net.trs['b']._onMessageReceived(Node('a'), m)
        if m.get('transmission') == 'start':
            break
    oldConnection = [_pk.loads(m) for m in net.q[('a', 'b')]]
    # a gives the connection up and opens a new one. b (accepting side) only sees a new connection.
    net.up.discard(frozenset(('a', 'b')))
    net.q[('a', 'b')], net.q[('b', 'a')] = [], []      # b's answers on the old connection are lost
    net.trs['a']._onNodeDisconnected(Node('b'))
    net.connect('a', 'b')
    # a notices that b lacks the entry and sends it again on the new connection
    for _ in range(10):
        CLOCK.now += 0.2
        A._onTick(0.0)
        while net.q[('b', 'a')]:
            net.trs['a']._onMessageReceived(Node('b'), _pk.loads(net.q[('b', 'a')].pop(0)))
        kinds = [_pk.loads(m).get('transmission') for m in net.q[('a', 'b')]]
        if 'start' in kinds:
            break
        while net.q[('a', 'b')]:
            net.trs['b']._onMessageReceived(Node('a'), _pk.loads(net.q[('a', 'b')].pop(0)))
    assert 'start' in kinds, kinds
    print('a -> b on the new connection:', kinds)
    failure = None
    try:
        # new connection: up to and including start'
        while True:
            m = _pk.loads(net.q[('a', 'b')].pop(0))
            net.trs['b']._onMessageReceived(Node('a'), m)
            if m.get('transmission') == 'start':
                break
        # delayed rest of the old connection
        for m in oldConnection:
            net.trs['b']._onMessageReceived(Node('a'), m)
        # new connection goes on
        while net.q[('a', 'b')]:
            net.trs['b']._onMessageReceived(Node('a'), _pk.loads(net.q[('a', 'b')].pop(0)))
    except Exception as e:
        failure = e
        traceback.print_exc()
    if failure is not None:
        print('PROPERTY VIOLATED: C11 follower raised %r while receiving a chunked command' % (failure,))
        return 1
    print('ok: no exception')
    return 0


if __name__ == '__main__':
    sys.exit(main())
