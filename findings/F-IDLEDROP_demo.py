#!/usr/bin/env python3
"""
finding1 - C14 (and C13): a perfectly healthy but idle connection is torn down at its first use
and the message sent over it is lost.

Real SyncObj nodes, real TCPTransport over 127.0.0.1, manual ticks, virtual clock.
No fault is ever injected on the link between the two followers B and C. The only fault of the
whole run is the crash of the leader A (its sockets are closed, like a killed process).

The follower <-> follower link carries no traffic while a leader is alive. TcpConnection measures
its read timeout against the time of the last read and evaluates it lazily - right before a send
(__trySendBuffer) and right before handling a poll event (__processConnection). So the first
request_vote that travels over that link after more than connectionTimeout (3.5 s) of silence
kills the connection instead of being delivered: the transport reports "B <-> C disconnected"
although the network is fine, and the first election round after a leader crash is always wasted.

Control run: the same schedule, but the leader dies before the link has been idle for
connectionTimeout -> the vote request is delivered, B wins the first round, nobody sees a disconnect.
"""
import os
import sys
import socket

sys.path.insert(0, os.path.dirname(os.path.abspath(__file__)))

import pysyncobj.syncobj as so
import pysyncobj.transport as tr
import pysyncobj.tcp_connection as tc
from pysyncobj import SyncObj, SyncObjConf, replicated


class Clock(object):
    now = 1000.0


def _clock():
    return Clock.now


so.monotonicTime = _clock
tr.monotonicTime = _clock
tc.monotonicTime = _clock


def freePorts(n):
    socks, ports = [], []
    for _ in range(n):
        s = socket.socket()
        s.bind(('127.0.0.1', 0))
        socks.append(s)
        ports.append(s.getsockname()[1])
    for s in socks:
        s.close()
    return ports


class Counter(SyncObj):
    def __init__(self, selfAddr, others, conf):
        super(Counter, self).__init__(selfAddr, others, conf)
        self.value = 0

    @replicated
    def incr(self):
        self.value += 1
        return self.value


def scenario(leaderUptime):
    """Returns a dict of observations. leaderUptime: virtual seconds the leader lives."""
    Clock.now = 1000.0
    addrs = sorted('127.0.0.1:%d' % p for p in freePorts(3))
    names = dict(zip(addrs, 'ABC'))
    timeouts = {'A': 0.5, 'B': 1.0, 'C': 1.5}  # A is elected first, after A's death B times out first
    nodes = {}
    for addr in addrs:
        t = timeouts[names[addr]]
        conf = SyncObjConf(autoTick=False, raftMinTimeout=t, raftMaxTimeout=t + 0.001,
                           connectionTimeout=3.5, appendEntriesPeriod=0.1)
        nodes[names[addr]] = Counter(addr, [a for a in addrs if a != addr], conf)
    A, B, C = nodes['A'], nodes['B'], nodes['C']

    def nodeObj(owner, name):
        addr = [a for a in addrs if names[a] == name][0]
        return [x for x in nodes[owner].otherNodes if x.id == addr][0]

    # observe what the transport tells the SyncObj (without changing it)
    log = []

    def spy(ownerName):
        t = nodes[ownerName]._SyncObj__transport
        origMsg, origDis, origCon = t._onMessageReceivedCallback, t._onNodeDisconnectedCallback, t._onNodeConnectedCallback

        def onMsg(node, msg):
            log.append((Clock.now, ownerName, 'msg', names.get(node.id, node.id), msg.get('type')))
            origMsg(node, msg)

        def onDis(node):
            log.append((Clock.now, ownerName, 'disconnected', names.get(node.id, node.id), None))
            origDis(node)

        def onCon(node):
            log.append((Clock.now, ownerName, 'connected', names.get(node.id, node.id), None))
            origCon(node)
        t.setOnMessageReceivedCallback(onMsg)
        t.setOnNodeDisconnectedCallback(onDis)
        t.setOnNodeConnectedCallback(onCon)

    for n in 'ABC':
        spy(n)

    live = [A, B, C]

    def run(duration, step=0.05):
        end = Clock.now + duration
        while Clock.now < end:
            Clock.now += step
            for _ in range(2):
                for o in live:
                    o._onTick(0.0)

    run(leaderUptime)
    assert A._isLeader(), 'setup: A should be the leader'
    assert B._getLeader() == A.selfNode and C._getLeader() == A.selfNode, 'setup: followers know the leader'
    assert B.isNodeConnected(nodeObj('B', 'C')) and C.isNodeConnected(nodeObj('C', 'B')), 'setup: B and C are connected'

    # the only fault: the leader process dies (the kernel closes its sockets)
    crashTime = Clock.now
    live.remove(A)
    A._doDestroy()
    mark = len(log)

    electedAt = None
    end = Clock.now + 6.0
    while Clock.now < end and electedAt is None:
        Clock.now += 0.05
        for _ in range(2):
            for o in live:
                o._onTick(0.0)
        if B._isLeader() or C._isLeader():
            electedAt = Clock.now

    after = log[mark:]
    bcDisconnects = [e for e in after if e[2] == 'disconnected' and ((e[1], e[3]) in (('B', 'C'), ('C', 'B')))]
    votesAtC = [e for e in after if e[1] == 'C' and e[2] == 'msg' and e[3] == 'B' and e[4] == 'request_vote']
    res = {
        'crashTime': crashTime,
        'bcDisconnects': bcDisconnects,
        'votesAtC': votesAtC,
        'failover': None if electedAt is None else electedAt - crashTime,
        'termOfNewLeader': max(B.raftCurrentTerm, C.raftCurrentTerm),
    }
    for o in live:
        o._doDestroy()
    return res


def main():
    control = scenario(leaderUptime=2.0)   # link B<->C idle for less than connectionTimeout
    idle = scenario(leaderUptime=10.0)     # link B<->C idle for more than connectionTimeout

    print('control (leader lives 2 s): failover %.2f s, B<->C disconnects reported: %d, leader term %d' % (
        control['failover'], len(control['bcDisconnects']), control['termOfNewLeader']))
    print('idle    (leader lives 10 s): failover %.2f s, B<->C disconnects reported: %d, leader term %d' % (
        idle['failover'], len(idle['bcDisconnects']), idle['termOfNewLeader']))
    for e in idle['bcDisconnects']:
        print('   t=+%.2f  %s was told: %s %s' % (e[0] - idle['crashTime'], e[1], e[3], e[2]))

    # sanity of the harness: in the control run everything is as the property demands
    assert not control['bcDisconnects'] and control['termOfNewLeader'] == 2, 'control run misbehaves: %r' % (control,)

    problems = []
    if idle['bcDisconnects']:
        problems.append('the fault-free link B<->C was reported disconnected %d time(s)' % len(idle['bcDisconnects']))
    if idle['termOfNewLeader'] != 2:
        problems.append("B's first request_vote was never delivered to C (sent over a healthy connection); "
                        'the leader was elected only in term %d, failover %.2f s instead of %.2f s' % (
                            idle['termOfNewLeader'], idle['failover'], control['failover']))
    if problems:
        print('PROPERTY VIOLATED: C14 (and C13) - ' + '; '.join(problems))
        sys.exit(1)
    print('ok')
    sys.exit(0)


if __name__ == '__main__':
    main()
