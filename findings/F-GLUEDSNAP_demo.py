#!/usr/bin/env python3
"""Deterministic in-memory harness for PySyncObj (virtual clock, explicit message delivery)."""
import os, sys, random, pickle as _pickle
sys.path.insert(0, os.path.dirname(os.path.abspath(__file__)))
import pysyncobj.syncobj as so
from pysyncobj import SyncObj, SyncObjConf, replicated, FAIL_REASON
from pysyncobj.transport import Transport
from pysyncobj.node import Node


class Clock(object):
    def __init__(self):
        self.t = 1000.0
        self.drift = 0.0

    def __call__(self):
        self.t += self.drift
        return self.t


CLOCK = Clock()
so.monotonicTime = CLOCK


class Net(object):
    def __init__(self):
        self.tr = {}      # id -> SimTransport
        self.up = set()   # frozenset({a, b})
        self.q = {}       # (src, dst) -> list of pickled messages (FIFO)
        self.trace = False

    def connected(self, a, b):
        return frozenset((a, b)) in self.up

    def connect(self, a, b):
        k = frozenset((a, b))
        if k in self.up:
            return
        self.up.add(k)
        self.q[(a, b)] = []
        self.q[(b, a)] = []
        self.tr[a]._peerConnected(b)
        self.tr[b]._peerConnected(a)

    def disconnect(self, a, b):
        k = frozenset((a, b))
        if k not in self.up:
            return
        self.up.discard(k)
        # everything in flight is lost together with the connection
        self.q[(a, b)] = []
        self.q[(b, a)] = []
        self.tr[a]._peerDisconnected(b)
        self.tr[b]._peerDisconnected(a)

    def send(self, a, b, msg):
        if not self.connected(a, b):
            return False
        self.q[(a, b)].append(_pickle.dumps(msg))
        return True

    def pending(self, a, b):
        return len(self.q.get((a, b), []))

    def peek(self, a, b, i=0):
        return _pickle.loads(self.q[(a, b)][i])

    def deliver(self, a, b, n=1):
        """deliver the n oldest messages a -> b (all if n is None)"""
        cnt = 0
        while self.q.get((a, b)) and (n is None or cnt < n):
            raw = self.q[(a, b)].pop(0)
            msg = _pickle.loads(raw)
            if self.trace:
                print('   %s -> %s : %s' % (a, b, brief(msg)))
            self.tr[b]._recv(a, msg)
            cnt += 1
        return cnt

    def deliverAll(self, exclude=(), maxRounds=50):
        """deliver until quiet; exclude = set of (src, dst) directions that are held back"""
        for _ in range(maxRounds):
            any_ = False
            for (a, b) in sorted(self.q):
                if (a, b) in exclude:
                    continue
                if self.q[(a, b)]:
                    self.deliver(a, b, None)
                    any_ = True
            if not any_:
                return


def brief(msg):
    m = dict(msg)
    if 'entries' in m:
        m['entries'] = [(e[1], e[2]) for e in m['entries']]
    if 'data' in m:
        m['data'] = '<%d bytes>' % len(m['data'])
    if m.get('serialized') is not None:
        s = m['serialized']
        m['serialized'] = ('<%d bytes>' % len(s[0]), s[1], s[2])
    return m


class SimTransport(Transport):
    def __init__(self, net, selfId, readonly=False):
        Transport.__init__(self, None, None, None)
        self.net = net
        self.id = selfId
        self.readonly = readonly
        self.peerReadonly = {}
        net.tr[selfId] = self

    def _peerConnected(self, peer):
        if self.net.tr[peer].readonly:
            self._onReadonlyNodeConnected(Node(peer))
        else:
            self._onNodeConnected(Node(peer))

    def _peerDisconnected(self, peer):
        if self.net.tr[peer].readonly:
            self._onReadonlyNodeDisconnected(Node(peer))
        else:
            self._onNodeDisconnected(Node(peer))

    def _recv(self, peer, msg):
        self._onMessageReceived(Node(peer), msg)

    def send(self, node, message):
        return self.net.send(self.id, node.id, message)


class Counter(SyncObj):
    def __init__(self, net, selfId, others, readonly=False, **confkw):
        kw = dict(autoTick=False, appendEntriesUseBatch=True, raftMinTimeout=1.0, raftMaxTimeout=2.0,
                  appendEntriesPeriod=0.1, leaderFallbackTimeout=5.0, logCompactionMinEntries=10 ** 9,
                  logCompactionMinTime=10 ** 9, useFork=False)
        kw.update(confkw)
        conf = SyncObjConf(**kw)
        self.nid = selfId   # set before SyncObj.__init__: not part of the replicated state
        tr = SimTransport(net, selfId, readonly)
        SyncObj.__init__(self, None if readonly else Node(selfId), [Node(o) for o in others], conf=conf, transport=tr)
        self.log = []   # replicated state: applied commands, in order

    @replicated
    def add(self, v):
        self.log.append(v)
        return len(self.log)


def priv(obj, name):
    return getattr(obj, '_SyncObj__' + name)


def logOf(obj):
    return [(e[1], e[2]) for e in priv(obj, 'raftLog')[:]]


def tickAll(objs, dt=0.0):
    CLOCK.t += dt
    for o in objs:
        o._onTick(0.0)


class ScenarioBroken(Exception):
    pass


def check(cond, what):
    """sanity check of the choreography (not the property)"""
    if not cond:
        raise ScenarioBroken(what)


def main(prop, scenario):
    import logging
    logging.disable(logging.CRITICAL)
    try:
        bad = scenario()
    except ScenarioBroken as e:
        print('scenario did not unfold as on the unmodified library (step: %s) - no violation shown' % e)
        sys.exit(0)
    if bad:
        for b in bad:
            print('PROPERTY VIOLATED: %s %s' % (prop, b))
        sys.exit(1)
    print('no violation')
    sys.exit(0)


# ---------------------------------------------------------------------------------------------------------------
# finding 2 (C02): chunks of two different snapshots are glued together and the failed load is reported as success.
#  - the leader keeps the read offset of a snapshot transfer when it loses leadership (Serializer.__transmissions is only
#    reset on disconnect / new local snapshot) and resumes in the middle after it is re-elected; in between another
#    leader started its own transfer, so the follower assembles  <chunks 1..k of B> + <chunks j.. of A>;
#  - SyncObj.__loadDumpFile swallows the exception of the failing deserialisation and returns True; the follower then
#    answers success=True with its OWN log end and moves its commit index to min(leaderCommit, own log end):
#    uncommitted entries of its divergent tail are applied and their callbacks report SUCCESS.
# Root cause: Serializer.__transmissions (serializer.py:117-155) survives the loss of leadership; chunks carry no identity
#   (serializer.py:157-203); SyncObj.__loadDumpFile (syncobj.py:1414-1448) swallows the exception and returns True, the
#   caller (syncobj.py:967-980) answers success and sets the commit index to min(leaderCommit, own log end).
# Repair: __loadDumpFile must report the failure and the caller must then neither answer success nor touch the commit
#   index; cancel outgoing transmissions when leadership is lost (or tag chunks with transfer id + offset).
# ---------------------------------------------------------------------------------------------------------------
def scenario():
    random.seed(2)
    R = random.Random(5)
    net = Net()
    ids = ['n1', 'n2', 'n3']
    # pushing one snapshot chunk into a connection costs 40 ms (big chunks / slow serialisation / encryption): a transfer
    # is cut into several rounds by the "delta > appendEntriesPeriod" check in __sendAppendEntries
    origSend = SimTransport.send

    def slowSend(self, node, message):
        if message.get('serialized') is not None:
            CLOCK.t += 0.04
        return origSend(self, node, message)
    SimTransport.send = slowSend
    N = dict((i, Counter(net, i, [j for j in ids if j != i], leaderFallbackTimeout=30.0, logCompactionBatchSize=64)) for i in ids)
    objs = [N[i] for i in ids]
    for a in ids:
        for b in ids:
            if a < b:
                net.connect(a, b)
    HOLD = set()

    def settle(rounds=3, dt=0.1, who=None):
        for _ in range(rounds):
            tickAll(who or objs, dt)
            net.deliverAll(exclude=HOLD)

    def show(tag):
        print('-- ' + tag)
        for i in ids:
            o = N[i]
            print('   %s term %d %s commit %d applied %d log %r .. %r state ..%r' % (
                i, o.raftCurrentTerm, 'LEADER' if o._isLeader() else '      ', o.raftCommitIndex, o.raftLastApplied,
                logOf(o)[:2], logOf(o)[-2:], [str(x)[:9] for x in o.log[-3:]]))
    results = {}

    def submit(o, v):
        def cb(res, err, v=v):
            assert v not in results, 'callback called twice for %r' % v
            results[v] = (res, err)
        o.add(v, callback=cb)
    ser = lambda o: priv(o, 'serializer')
    trans = lambda o: dict((k.id, v['transmitted']) for k, v in ser(o)._Serializer__transmissions.items())
    dl = lambda o: priv(o, 'raftElectionDeadline')

    # 1. n3 is leader of term 1; three commands committed everywhere
    CLOCK.t += 2.5
    N['n3']._onTick(0.0); net.deliverAll(); settle()
    check(N['n3']._isLeader(), 'n3 leader of term 1')
    for v in (1, 2, 3):
        N['n3'].add(v)
    settle(5)
    # 2. n3 is cut off; it still accepts two commands (idx 6, 7 of term 1, never replicated)
    net.disconnect('n3', 'n1'); net.disconnect('n3', 'n2')
    submit(N['n3'], 900); submit(N['n3'], 901)
    N['n3']._onTick(0.0)
    # 3. n1 is elected (term 2); 40 commands; n1 and n2 compact their logs at different positions
    CLOCK.t += 2.5
    N['n1']._onTick(0.0); net.deliverAll(); settle(who=[N['n1'], N['n2']])
    check(N['n1']._isLeader(), 'n1 leader of term 2')
    blob = lambda v: 'value-%d-%s' % (v, ''.join(R.choice('0123456789abcdef') for _ in range(200)))
    for v in range(10, 40):
        N['n1'].add(blob(v))
    settle(5, who=[N['n1'], N['n2']])
    N['n1'].forceLogCompaction()
    settle(2, who=[N['n1'], N['n2']])
    for v in range(40, 50):
        N['n1'].add(blob(v))
    settle(5, who=[N['n1'], N['n2']])
    N['n2'].forceLogCompaction()
    settle(2, who=[N['n1'], N['n2']])
    show('n3 cut off with uncommitted 6, 7; n1 (leader) and n2 compacted')
    # 4. the link n1 <-> n2 becomes very slow.  Shortly before n2's election timeout fires, n3 comes back and n1 sends
    #    the first 3 chunks of its snapshot to it.
    HOLD.add(('n1', 'n2')); HOLD.add(('n2', 'n1'))
    while CLOCK.t + 0.1 < dl(N['n2']):
        settle(1, dt=0.05, who=[N['n1'], N['n2']])
    net.connect('n3', 'n1'); net.connect('n3', 'n2')
    settle(1, dt=0.05, who=[N['n1']])
    check(trans(N['n1']) == {'n3': 192}, 'n1 has sent 3 chunks (192 bytes) of its snapshot to n3')
    # 5. n2 times out, gets the vote of n3 and leads term 3; its vote request reaches n1, which steps down -
    #    and keeps the read offset of its transfer
    CLOCK.t = dl(N['n2']) + 0.001
    N['n2']._onTick(0.0)
    net.deliverAll(exclude=HOLD)
    check(N['n2']._isLeader() and N['n2'].raftCurrentTerm == 3, 'n2 leader of term 3')
    net.deliver('n2', 'n1', None)
    check(not N['n1']._isLeader() and trans(N['n1']) == {'n3': 192}, 'n1 follower, transfer offset kept')
    # 6. n2 sends its own (different) snapshot to n3, 3 chunks per round; n1 hears nothing from n2 (slow link),
    #    times out in the middle of that transfer and wins term 4 with the vote of n3
    while not N['n1']._isLeader():
        settle(1, dt=0.05)
        check(trans(N['n2']).get('n3', 0) < 5000, 'n2 still in the middle of its transfer')
    check(N['n1'].raftCurrentTerm == 4, 'n1 leader of term 4')
    print('   n2 stopped after %r bytes of its snapshot; n1 resumes its own snapshot at byte 192' % trans(N['n2']))
    HOLD.clear()
    # 7. n1 resumes ITS transfer at chunk 4; n3 appends these chunks to the chunks of n2
    for i in range(60):
        settle(1, dt=0.05)
        if results:
            break
    show('n3 could not load the mixed snapshot, answered success and advanced its commit index to its own log end')
    print('   callbacks on n3: %r' % results)
    for i in range(100):
        settle(1, dt=0.05)
    show('10 s later')
    # ---- the property (C02) ----
    bad = []
    final = N['n1'].log
    for v, (res, err) in sorted(results.items()):
        if err == FAIL_REASON.SUCCESS and v not in final:
            bad.append('n3 acknowledged add(%r) with SUCCESS (result %r) although the entry was never committed: it is in '
                       'no replica after convergence (%r)' % (v, res, dict((i, v in N[i].log) for i in ids)))
    return bad


main('C02', scenario)
