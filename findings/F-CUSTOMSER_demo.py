#!/usr/bin/env python3
"""
finding2.py  -  C17: the enabled code version is lost by every node that loads a snapshot written with a custom
                serializer (conf.serializer / conf.deserializer): restart from its own dump file, or catch-up by snapshot.

With a custom serializer SyncObj passes only (lastEntry, prevEntry, memberSet) to the user function (data[1:]) and keeps
none of its own state - in particular not the enabled code version, for which there is no public setter either.  The
VERSION log entry itself is compacted away, so a node that loads such a snapshot stays at version 0 for ever while the
rest of the cluster is at version 1: getCodeVersion() differs and calls made on that node run the OLD implementation
(on all nodes) although the cluster-wide enabled version is 1.

The same scenario with the built-in pickle serializer is run first as a control: it passes.

exit 1 + 'PROPERTY VIOLATED: C17 ...' when the defect shows, 0 otherwise.
"""
import os
import sys
import pickle
import random
import collections

sys.path.insert(0, os.path.dirname(os.path.abspath(__file__)))

import pysyncobj.syncobj as _so
import pysyncobj.transport as _tr
from pysyncobj import SyncObj, SyncObjConf, FAIL_REASON
from pysyncobj.node import Node
from pysyncobj.transport import Transport


# --------------------------------------------------------------------------------------------------------------------
# deterministic harness: virtual clock + in-memory network with one FIFO queue per directed link
# --------------------------------------------------------------------------------------------------------------------
class Clock(object):
    def __init__(self):
        self.t = 1000.0

    def __call__(self):
        return self.t


CLOCK = Clock()
_so.monotonicTime = CLOCK
_tr.monotonicTime = CLOCK


class Net(object):
    """Connections are per unordered pair.  A live connection delivers in order and loses nothing; a disconnect loses
    everything in flight in both directions (TCP semantics)."""

    def __init__(self):
        self.transports = {}
        self.up = set()
        self.queues = collections.defaultdict(collections.deque)
        self.held = set()  # directed links whose messages are currently delayed

    def connect(self, a, b):
        key = frozenset((a, b))
        if key in self.up:
            return
        self.up.add(key)
        self.transports[a]._onNodeConnected(Node(b))
        self.transports[b]._onNodeConnected(Node(a))

    def disconnect(self, a, b):
        key = frozenset((a, b))
        if key not in self.up:
            return
        self.up.discard(key)
        self.queues[(a, b)].clear()
        self.queues[(b, a)].clear()
        for x, y in ((a, b), (b, a)):
            if x in self.transports:
                self.transports[x]._onNodeDisconnected(Node(y))

    def send(self, src, dst, message):
        if frozenset((src, dst)) not in self.up:
            return False
        self.queues[(src, dst)].append(pickle.dumps(message))
        return True

    def deliverLink(self, src, dst, count=None):
        q = self.queues[(src, dst)]
        n = 0
        while q and (count is None or n < count):
            msg = pickle.loads(q.popleft())
            self.transports[dst]._onMessageReceived(Node(src), msg)
            n += 1
        return n

    def deliverAll(self):
        progress = True
        while progress:
            progress = False
            for (src, dst) in sorted(self.queues):
                if (src, dst) in self.held:
                    continue
                if self.deliverLink(src, dst):
                    progress = True


class MemTransport(Transport):
    def __init__(self, net, selfId):
        super(MemTransport, self).__init__(None, None, None)
        self.net = net
        self.id = selfId
        net.transports[selfId] = self

    def send(self, node, message):
        return self.net.send(self.id, node.id, message)


def makeConf(**kw):
    args = dict(autoTick=False, raftMinTimeout=10.0, raftMaxTimeout=20.0, appendEntriesPeriod=0.5,
                connectionTimeout=40.0, leaderFallbackTimeout=100.0, commandsWaitLeader=True,
                appendEntriesUseBatch=True, logCompactionMinEntries=100000, logCompactionMinTime=1000000,
                dynamicMembershipChange=False)
    args.update(kw)
    return SyncObjConf(**args)


class Cluster(object):
    def __init__(self, ids, factory):
        self.net = Net()
        self.ids = list(ids)
        self.objs = {}
        self.factory = factory
        for i in self.ids:
            self.start(i)
        for i, a in enumerate(self.ids):
            for b in self.ids[i + 1:]:
                self.net.connect(a, b)

    def start(self, i):
        transport = MemTransport(self.net, i)
        self.objs[i] = self.factory(Node(i), [Node(j) for j in self.ids if j != i], transport)
        return self.objs[i]

    def tickAll(self, only=None):
        for i in self.ids:
            if i in self.objs and (only is None or i in only):
                self.objs[i]._onTick(0.0)

    def run(self, duration, dt=0.25, only=None):
        steps = int(round(duration / dt))
        for _ in range(steps):
            CLOCK.t += dt
            self.tickAll(only)
            self.net.deliverAll()

    def leader(self):
        leaders = [i for i in self.ids if i in self.objs and self.objs[i]._isLeader()]
        return leaders[0] if len(leaders) == 1 else None

    def electLeader(self):
        for _ in range(400):
            self.run(0.25)
            l = self.leader()
            if l is not None and all(o._getLeader() is not None and o._getLeader().id == l for o in self.objs.values()):
                self.run(2.0)
                return l
        raise RuntimeError('no leader elected')


# --------------------------------------------------------------------------------------------------------------------
# scenario
# --------------------------------------------------------------------------------------------------------------------
import shutil
import tempfile
from pysyncobj import replicated


class Journal(SyncObj):
    """Replicated list of (implementation, argument).  'put' exists in two code versions."""

    def __init__(self, selfNode, others, conf, transport, holder):
        holder['obj'] = self
        super(Journal, self).__init__(selfNode, others, conf=conf, nodeClass=Node, transport=transport)
        self.items = []

    @replicated
    def put(self, x):
        self.items.append(('v0', x))

    @replicated(ver=1)
    def put(self, x):
        self.items.append(('v1', x))


def scenario(custom, tmpDir):
    random.seed(1)
    CLOCK.t = 1000.0

    def factory(selfNode, others, transport):
        holder = {}
        fileName = os.path.join(tmpDir, '%s_%s.dump' % ('custom' if custom else 'builtin', selfNode.id))
        kw = dict(fullDumpFile=fileName, useFork=False)
        if custom:
            # the documented contract: store 'data' together with the user state, give it back on load
            def serializer(fn, data):
                with open(fn, 'wb') as f:
                    pickle.dump((holder['obj'].items, data), f)

            def deserializer(fn):
                with open(fn, 'rb') as f:
                    items, data = pickle.load(f)
                holder['obj'].items = items
                return data

            kw.update(serializer=serializer, deserializer=deserializer)
        return Journal(selfNode, others, makeConf(**kw), transport, holder)

    cl = Cluster(['a', 'b', 'c'], factory)
    L = cl.electLeader()
    F, G = [i for i in cl.ids if i != L]
    res = {}

    def cb(tag):
        def f(r, e):
            res[tag] = e
        return f

    cl.objs[L].put('before', callback=cb('p0'))
    cl.run(2.0)

    # G is cut off; the others switch to version 1, go on, and compact their logs
    # (the VERSION entry is now only in the snapshots)
    cl.net.disconnect(G, L)
    cl.net.disconnect(G, F)
    cl.objs[L].setCodeVersion(1, callback=cb('ver'))
    cl.run(2.0)
    assert res == {'p0': 0, 'ver': 0}, res
    assert [cl.objs[i].getCodeVersion() for i in (L, F)] == [1, 1]
    cl.objs[L].put('after-switch', callback=cb('p1'))
    cl.run(2.0)
    cl.objs[L].forceLogCompaction()
    cl.objs[F].forceLogCompaction()
    cl.run(2.0)
    assert cl.objs[L]._getRaftLogSize() <= 3 and cl.objs[F]._getRaftLogSize() <= 3

    # (1) G catches up by snapshot
    cl.net.connect(G, L)
    cl.net.connect(G, F)
    cl.run(5.0)
    assert cl.objs[G].raftLastApplied == cl.objs[L].raftLastApplied
    assert cl.objs[G].items == cl.objs[L].items

    # (2) F crashes and restarts from its own dump file
    cl.net.disconnect(F, L)
    cl.net.disconnect(F, G)
    del cl.objs[F]
    cl.start(F)
    cl.net.connect(F, L)
    cl.net.connect(F, G)
    cl.run(5.0)
    assert cl.objs[F].raftLastApplied == cl.objs[L].raftLastApplied
    assert cl.objs[F].items == cl.objs[L].items

    versions = dict((i, cl.objs[i].getCodeVersion()) for i in cl.ids)

    # calls made on the node that caught up by snapshot and on the restarted node
    cl.objs[G].put('from-G', callback=cb('p2'))
    cl.objs[F].put('from-F', callback=cb('p3'))
    cl.run(3.0)
    assert res.get('p2') == 0 and res.get('p3') == 0, res
    ran = dict((i, [(x, impl) for impl, x in cl.objs[i].items if x in ('from-G', 'from-F')]) for i in cl.ids)
    print('  %-8s serializer: leader=%s restarted=%s snapshot-catch-up=%s\n      getCodeVersion()=%s\n      calls ran as %s'
          % ('custom' if custom else 'built-in', L, F, G, versions, ran))
    problems = []
    if set(versions.values()) != {1}:
        problems.append('enabled version 1 was lost: getCodeVersion() per node = %r' % versions)
    if any(impl != 'v1' for v in ran.values() for x, impl in v):
        problems.append('a call made while the cluster version is 1 ran implementation %r' % ran)
    return problems


def main():
    tmpDir = tempfile.mkdtemp(prefix='f2_', dir=os.path.dirname(os.path.abspath(__file__)))
    try:
        control = scenario(False, tmpDir)
        assert not control, 'control run with the built-in serializer failed: %r' % control
        problems = scenario(True, tmpDir)
    finally:
        shutil.rmtree(tmpDir, ignore_errors=True)
    if problems:
        print('PROPERTY VIOLATED: C17 with a custom serializer: ' + '; '.join(problems))
        return 1
    print('ok')
    return 0


if __name__ == '__main__':
    sys.exit(main())
