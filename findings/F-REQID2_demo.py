#!/usr/bin/env python3
"""
finding7.py  -  C02 (same root cause as finding4, other symptom): SUCCESS is reported with the result of a DIFFERENT
                command.

request_ids of forwarded commands are a bare per-process counter; a restarted node reuses 1, 2, 3 ... while a peer can
still hold a command of the previous incarnation in its queue (commandsWaitLeader=True keeps forwarded commands queued
while the peer knows no leader).  When that peer becomes leader it appends the old command and answers
{request_id 1, log_idx X}; the restarted node attaches the callback of its NEW command number 1 to index X and reports
SUCCESS with whatever the old command returned there.

Schedule (3 nodes A, B, C; ReplDict consumer):
  1. A leader (term 1).  Slow links make C start an election (term 2).
  2. B submits d.setdefault('x', 'value-of-old-command'): forwarded to A as request 1, A has it in its queue.
  3. C's request_vote reaches A before A ticks: A steps down (no leader known -> the command stays queued).
     C then loses its connections (it never gets elected).
  4. B crashes and restarts; the new B submits d.setdefault('y', 'value-of-new-command') (waits for a leader).
  5. A's election timer fires (term 3), the new B votes for it, A is leader and sends its first append_entries.
     B learns the leader and forwards its command as request 1; it arrives at A before A's next tick.
  6. A ticks: old command -> index X, answer {1, X}; new command -> index X+1, answer {1, X+1}.
     B binds its callback to X (first answer), drops the second answer.
  7. Both commit.  B's callback: SUCCESS, 'value-of-old-command'.

exit 1 + 'PROPERTY VIOLATED: C02 ...' when the defect shows, 0 otherwise.
"""
import os
import sys
import pickle
import random
import collections

sys.path.insert(0, os.path.dirname(os.path.abspath(__file__)))

import pysyncobj.syncobj as _so
import pysyncobj.transport as _tr
from pysyncobj import SyncObj, SyncObjConf, FAIL_REASON
from pysyncobj.node import Node
from pysyncobj.transport import Transport


# --------------------------------------------------------------------------------------------------------------------
# deterministic harness: virtual clock + in-memory network with one FIFO queue per directed link
# --------------------------------------------------------------------------------------------------------------------
class Clock(object):
    def __init__(self):
        self.t = 1000.0

    def __call__(self):
        return self.t


CLOCK = Clock()
_so.monotonicTime = CLOCK
_tr.monotonicTime = CLOCK


class Net(object):
    """Connections are per unordered pair.  A live connection delivers in order and loses nothing; a disconnect loses
    everything in flight in both directions (TCP semantics)."""

    def __init__(self):
        self.transports = {}
        self.up = set()
        self.queues = collections.defaultdict(collections.deque)
        self.held = set()  # directed links whose messages are currently delayed

    def connect(self, a, b):
        key = frozenset((a, b))
        if key in self.up:
            return
        self.up.add(key)
        self.transports[a]._onNodeConnected(Node(b))
        self.transports[b]._onNodeConnected(Node(a))

    def disconnect(self, a, b):
        key = frozenset((a, b))
        if key not in self.up:
            return
        self.up.discard(key)
        self.queues[(a, b)].clear()
        self.queues[(b, a)].clear()
        for x, y in ((a, b), (b, a)):
            if x in self.transports:
                self.transports[x]._onNodeDisconnected(Node(y))

    def send(self, src, dst, message):
        if frozenset((src, dst)) not in self.up:
            return False
        self.queues[(src, dst)].append(pickle.dumps(message))
        return True

    def deliverLink(self, src, dst, count=None):
        q = self.queues[(src, dst)]
        n = 0
        while q and (count is None or n < count):
            msg = pickle.loads(q.popleft())
            self.transports[dst]._onMessageReceived(Node(src), msg)
            n += 1
        return n

    def deliverAll(self):
        progress = True
        while progress:
            progress = False
            for (src, dst) in sorted(self.queues):
                if (src, dst) in self.held:
                    continue
                if self.deliverLink(src, dst):
                    progress = True


class MemTransport(Transport):
    def __init__(self, net, selfId):
        super(MemTransport, self).__init__(None, None, None)
        self.net = net
        self.id = selfId
        net.transports[selfId] = self

    def send(self, node, message):
        return self.net.send(self.id, node.id, message)


def makeConf(**kw):
    args = dict(autoTick=False, raftMinTimeout=10.0, raftMaxTimeout=20.0, appendEntriesPeriod=0.5,
                connectionTimeout=40.0, leaderFallbackTimeout=100.0, commandsWaitLeader=True,
                appendEntriesUseBatch=True, logCompactionMinEntries=100000, logCompactionMinTime=1000000,
                dynamicMembershipChange=False)
    args.update(kw)
    return SyncObjConf(**args)


class Cluster(object):
    def __init__(self, ids, factory):
        self.net = Net()
        self.ids = list(ids)
        self.objs = {}
        self.factory = factory
        for i in self.ids:
            self.start(i)
        for i, a in enumerate(self.ids):
            for b in self.ids[i + 1:]:
                self.net.connect(a, b)

    def start(self, i):
        transport = MemTransport(self.net, i)
        self.objs[i] = self.factory(Node(i), [Node(j) for j in self.ids if j != i], transport)
        return self.objs[i]

    def tickAll(self, only=None):
        for i in self.ids:
            if i in self.objs and (only is None or i in only):
                self.objs[i]._onTick(0.0)

    def run(self, duration, dt=0.25, only=None):
        steps = int(round(duration / dt))
        for _ in range(steps):
            CLOCK.t += dt
            self.tickAll(only)
            self.net.deliverAll()

    def leader(self):
        leaders = [i for i in self.ids if i in self.objs and self.objs[i]._isLeader()]
        return leaders[0] if len(leaders) == 1 else None

    def electLeader(self):
        for _ in range(400):
            self.run(0.25)
            l = self.leader()
            if l is not None and all(o._getLeader() is not None and o._getLeader().id == l for o in self.objs.values()):
                self.run(2.0)
                return l
        raise RuntimeError('no leader elected')


# --------------------------------------------------------------------------------------------------------------------
# scenario
# --------------------------------------------------------------------------------------------------------------------
from pysyncobj.batteries import ReplDict


def main():
    random.seed(1)
    dicts = {}

    def factory(selfNode, others, transport):
        dicts[selfNode.id] = ReplDict()
        return SyncObj(selfNode, others, conf=makeConf(), consumers=[dicts[selfNode.id]], nodeClass=Node,
                       transport=transport)

    cl = Cluster(['a', 'b', 'c'], factory)
    net = cl.net
    A = cl.electLeader()
    B, C = [i for i in cl.ids if i != A]
    calls = collections.defaultdict(list)

    def cb(tag):
        def f(res, err):
            calls[tag].append((res, err))
        return f

    # 1. slow links around C; C's election timer fires
    net.held.update([(A, C), (C, A), (C, B)])
    for _ in range(200):
        cl.run(0.25)
        if cl.objs[C].raftCurrentTerm == 2:
            break
    assert cl.objs[C].raftCurrentTerm == 2 and cl.objs[A]._isLeader() and cl.objs[B]._getLeader().id == A

    # 2. B's command is forwarded to A (request_id 1) and received there
    dicts[B].setdefault('x', 'value-of-old-command', callback=cb('old'))
    cl.objs[B]._onTick(0.0)
    assert net.deliverLink(B, A) == 1

    # 3. C's request_vote reaches A before A ticks; then C is cut off completely
    net.deliverLink(C, A)
    assert not cl.objs[A]._isLeader() and cl.objs[A]._getLeader() is None and cl.objs[A].raftCurrentTerm == 2
    net.disconnect(C, A)
    net.disconnect(C, B)
    net.held.clear()

    # 4. B crashes, restarts, submits a new command (no leader yet: it waits in B's queue)
    net.disconnect(B, A)
    del cl.objs[B]
    cl.start(B)
    net.connect(B, A)
    dicts[B].setdefault('y', 'value-of-new-command', callback=cb('new'))

    # 5. A's election timer fires
    for _ in range(200):
        CLOCK.t += 0.25
        cl.objs[A]._onTick(0.0)
        if cl.objs[A].raftCurrentTerm == 3:
            break
        cl.objs[B]._onTick(0.0)
        net.deliverAll()
    assert cl.objs[A].raftCurrentTerm == 3 and not cl.objs[A]._isLeader()
    net.deliverLink(A, B)                     # request_vote
    net.deliverLink(B, A)                     # response_vote: A is leader, sends append_entries at once
    assert cl.objs[A]._isLeader()
    net.deliverLink(A, B)                     # B learns the leader ...
    assert cl.objs[B]._getLeader().id == A
    cl.objs[B]._onTick(0.0)                   # ... and forwards its command (request_id 1)
    net.deliverLink(B, A)

    # 6. A's next tick handles its command queue
    CLOCK.t += 0.05
    cl.objs[A]._onTick(0.0)
    answers = [pickle.loads(m) for m in net.queues[(A, B)]]
    answers = [(m['request_id'], m.get('log_idx')) for m in answers if m['type'] == 'apply_command_response']

    # 7. everything flows
    cl.run(6.0)

    contents = dict((i, dict(dicts[i].rawData())) for i in (A, B))
    print('roles: A=%s  B(restarted)=%s  C=%s' % (A, B, C))
    print('answers sent by A to B (request_id, log_idx):', answers)
    print('callback of setdefault("y", "value-of-new-command") on B:', calls['new'])
    print('dict on A and B:', contents)
    assert contents[A] == contents[B] == {'x': 'value-of-old-command', 'y': 'value-of-new-command'}
    assert len(calls['new']) == 1, calls['new']
    res, err = calls['new'][0]
    if err == FAIL_REASON.SUCCESS and res != 'value-of-new-command':
        print('PROPERTY VIOLATED: C02 callback reported SUCCESS with result %r; the command returns %r at its position '
              '(the result belongs to the command a previous incarnation of the node had forwarded)'
              % (res, 'value-of-new-command'))
        return 1
    print('ok')
    return 0


if __name__ == '__main__':
    sys.exit(main())
