#!/usr/bin/env python3
"""
finding2: a snapshot that is refused because of its code version has already overwritten the object (C01, C17, C09).

Fix 52854f3 refuses a received snapshot whose enabled code version exceeds the node's own - but inside
__loadDumpFile, AFTER Serializer.deserialize() ran.  With user-supplied serializer functions the deserializer
restores the object while it reads the file (exactly the situation fix 651408a describes for stale snapshots),
so the refused snapshot has rolled the object forward: raftLastApplied, the log and the enabled version stay
at the old position, the object shows the state of the snapshot's position.

Schedule: n1 (leader), n2 run new code (method of version 1), n3 runs old code.  inc(1) x3 applied everywhere
(value 3).  n3 is cut off.  setCodeVersion(1), inc(10) commit on n1+n2 (value 13), n1 compacts.  n3 reconnects,
n1 sends the snapshot, n3 refuses it (needs version 1) - but n3.value is 13 while n3.raftLastApplied is still
the position where value == 3.
"""
import os, sys, random, pickle
sys.path.insert(0, os.path.dirname(os.path.abspath(__file__)))
import pysyncobj.syncobj as so
from pysyncobj import SyncObj, SyncObjConf, replicated
from pysyncobj.transport import Transport
from pysyncobj.node import TCPNode


class Clock(object):
    t = 1000.0


so.monotonicTime = lambda: Clock.t
random.seed(7)


class Net(object):
    def __init__(self):
        self.tr = {}      # node id -> transport
        self.up = set()   # frozenset({a, b})
        self.q = {}       # (src, dst) -> list of messages

    def connect(self, a, b):
        self.up.add(frozenset((a, b)))
        self.q[(a, b)] = []
        self.q[(b, a)] = []
        self.tr[a]._onNodeConnected(TCPNode(b))
        self.tr[b]._onNodeConnected(TCPNode(a))

    def disconnect(self, a, b):
        self.up.discard(frozenset((a, b)))
        self.q.pop((a, b), None)
        self.q.pop((b, a), None)
        self.tr[a]._onNodeDisconnected(TCPNode(b))
        self.tr[b]._onNodeDisconnected(TCPNode(a))

    def deliverAll(self):
        n = 0
        progress = True
        while progress:
            progress = False
            for key in sorted(self.q):
                while self.q.get(key):
                    msg = self.q[key].pop(0)
                    self.tr[key[1]]._onMessageReceived(TCPNode(key[0]), pickle.loads(msg))
                    progress = True
                    n += 1
        return n


class MemTransport(Transport):
    def __init__(self, net, me):
        Transport.__init__(self, None, None, None)
        self.net, self.me = net, me
        net.tr[me] = self

    def send(self, node, message):
        if frozenset((self.me, node.id)) not in self.net.up:
            return False
        self.net.q[(self.me, node.id)].append(pickle.dumps(message))
        return True



class OldObj(SyncObj):
    def __init__(self, me, others, conf, transport):
        super(OldObj, self).__init__(me, others, conf=conf, transport=transport)
        self.value = 0

    @replicated
    def inc(self, d):
        self.value += d
        return self.value


class NewObj(OldObj):
    @replicated(ver=1)
    def dec(self, d):
        self.value -= d
        return self.value


def main():
    import tempfile, shutil
    tmpdir = tempfile.mkdtemp(dir=os.path.dirname(os.path.abspath(__file__)), prefix='_f2_')
    try:
        return scenario(tmpdir)
    finally:
        shutil.rmtree(tmpdir, ignore_errors=True)


def scenario(tmpdir):
    ids = ['n1:1', 'n2:1', 'n3:1']
    net = Net()
    objs = {}
    for i in ids:
        def serializer(fileName, data, i=i):
            with open(fileName, 'wb') as f:
                pickle.dump((objs[i].value, data), f)

        def deserializer(fileName, i=i):
            with open(fileName, 'rb') as f:
                value, data = pickle.load(f)
            objs[i].value = value      # a user deserializer restores the object as it reads the file
            return data

        conf = SyncObjConf(autoTick=False, appendEntriesUseBatch=True, dynamicMembershipChange=False,
                           logCompactionMinEntries=10 ** 9, logCompactionMinTime=10 ** 9,
                           fullDumpFile=os.path.join(tmpdir, i.replace(':', '_') + '.dump'),
                           serializer=serializer, deserializer=deserializer)
        cls = OldObj if i == 'n3:1' else NewObj
        objs[i] = cls(i, [x for x in ids if x != i], conf, MemTransport(net, i))

    def run(rounds, who=ids, dt=0.06):
        for _ in range(rounds):
            Clock.t += dt
            for i in who:
                objs[i]._onTick(0.0)
            net.deliverAll()

    net.connect('n1:1', 'n2:1')
    net.connect('n1:1', 'n3:1')
    net.connect('n2:1', 'n3:1')
    for _ in range(200):
        Clock.t += 0.06
        objs['n1:1']._onTick(0.0)
        net.deliverAll()
        if objs['n1:1']._isLeader():
            break
    assert objs['n1:1']._isLeader()
    run(10)

    res = []
    history = {}     # applied index -> value after it (taken from the leader)
    for _ in range(3):
        objs['n1:1'].inc(1, callback=lambda r, e: res.append((r, e)))
        run(10)
        history[objs['n1:1'].raftLastApplied] = objs['n1:1'].value
    assert res == [(1, 0), (2, 0), (3, 0)], res
    assert [objs[i].value for i in ids] == [3, 3, 3], [(objs[i].value, objs[i].raftLastApplied, objs[i].raftCommitIndex) for i in ids]
    assert len(set(objs[i].raftLastApplied for i in ids)) == 1
    n3Applied = objs['n3:1'].raftLastApplied

    net.disconnect('n1:1', 'n3:1')
    net.disconnect('n2:1', 'n3:1')
    two = ['n1:1', 'n2:1']
    objs['n1:1'].setCodeVersion(1, callback=lambda r, e: res.append(('ver', e)))
    run(10, two)
    objs['n1:1'].inc(10, callback=lambda r, e: res.append((r, e)))
    run(10, two)
    assert res[-2:] == [('ver', 0), (13, 0)], res
    objs['n1:1'].forceLogCompaction()
    run(10, two)
    assert objs['n1:1']._isLeader()

    # n3 comes back (it did not tick meanwhile: a stalled process / it keeps its term)
    net.connect('n1:1', 'n3:1')
    net.connect('n2:1', 'n3:1')
    run(10)

    o3 = objs['n3:1']
    print('n3: raftLastApplied=%d (was %d), enabled version=%d, value=%d; value after position %d is %d' % (
        o3.raftLastApplied, n3Applied, o3.getCodeVersion(), o3.value, o3.raftLastApplied,
        history.get(o3.raftLastApplied, -1)))
    if o3.raftLastApplied in history and o3.value != history[o3.raftLastApplied]:
        print('PROPERTY VIOLATED: C01/C17 n3 refused the snapshot (code version 1 > own 0) and stays at applied '
              'position %d, but its object already shows the snapshot state: value=%d instead of %d' % (
                  o3.raftLastApplied, o3.value, history[o3.raftLastApplied]))
        return 1
    print('ok')
    return 0


if __name__ == '__main__':
    sys.exit(main())
