"""finding1.py - C10: the member set stored in a snapshot contains membership entries that are not committed yet.

SyncObj.__tryLogCompaction serializes the state machine as of raftLastApplied together with
`self.__otherNodes | {self.__selfNode}`, but __otherNodes already reflects membership entries that were merely appended.
A follower that installs such a snapshot (and does not receive the pending entry) keeps that member set forever.
The script shows (a) two nodes with identical, fully committed logs and different member sets and (b) the resulting
split brain: two disjoint "majorities" commit different commands at the same index, both callbacks report SUCCESS.

Run: python3 finding1.py [-v]      exit 1 = property violated
"""
# Deterministic in-memory harness for PySyncObj: virtual clock + FIFO links that behave like TCP
# connections (ordered, lossless while up; everything in flight is lost when the link goes down;
# a peer that is not in the local member table is refused, as TCPTransport does).
import os
import sys
import pickle

sys.path.insert(0, os.path.dirname(os.path.abspath(__file__)))

import pysyncobj.syncobj as _so
import pysyncobj.transport as _tr
import pysyncobj.tcp_connection as _tc
from pysyncobj import SyncObj, SyncObjConf, replicated, FAIL_REASON
from pysyncobj.transport import Transport
from pysyncobj.node import Node, TCPNode


class Clock(object):
    t = 1000.0


def _now():
    return Clock.t


_so.monotonicTime = _now
_tr.monotonicTime = _now
_tc.monotonicTime = _now


def advance(dt):
    Clock.t += dt


class SimTransport(Transport):
    def __init__(self, net, selfId, others):
        super(SimTransport, self).__init__(None, None, None)
        self.net = net
        self.id = selfId            # None for a read-only node
        self.known = set(others)    # ids of the voters this node accepts / talks to
        self.alive = True
        self.roPeers = {}           # voter side: name of read-only peer -> Node object

    def addNode(self, node):
        self.known.add(node.id)

    def dropNode(self, node):
        self.known.discard(node.id)
        if self.net.isUp(self.id, node.id):
            self.net.disconnect(self.id, node.id)

    def send(self, node, message):
        return self.net.send(self, node, message)

    def destroy(self):
        self.net.kill(self.id)


def mkNode(i):
    return TCPNode(i) if ':' in i else Node(i)


class Net(object):
    def __init__(self):
        self.ro = set()     # ids of read-only nodes
        self.pollDriven = set()  # ids of nodes that receive messages only inside their own poll()
        self.tr = {}        # id -> SimTransport
        self.obj = {}       # id -> SyncObj
        self.links = set()  # frozenset((a, b))
        self.q = {}         # (src, dst) -> [pickled message]
        self.trace = False

    def isUp(self, a, b):
        return frozenset((a, b)) in self.links

    def connect(self, a, b):
        """TCP connect between two voters. Refused unless each side has the other in its member table."""
        if self.isUp(a, b):
            return True
        if b in self.ro:
            a, b = b, a
        ta, tb = self.tr.get(a), self.tr.get(b)
        if ta is None or tb is None or not ta.alive or not tb.alive:
            return False
        if a in self.ro:
            # a read-only node dials a voter it knows; the voter accepts any read-only peer
            if b not in ta.known:
                return False
            self.links.add(frozenset((a, b)))
            self.q[(a, b)] = []
            self.q[(b, a)] = []
            ta._onNodeConnected(TCPNode(b))
            tb._onReadonlyNodeConnected(Node(a))
            return True
        if b not in ta.known or a not in tb.known:
            return False
        self.links.add(frozenset((a, b)))
        self.q[(a, b)] = []
        self.q[(b, a)] = []
        ta._onNodeConnected(TCPNode(b))
        tb._onNodeConnected(TCPNode(a))
        return True

    def disconnect(self, a, b):
        """Connection loss: everything in flight in both directions is lost."""
        if not self.isUp(a, b):
            return
        self.links.discard(frozenset((a, b)))
        self.q[(a, b)] = []
        self.q[(b, a)] = []
        for x, y in ((a, b), (b, a)):
            t = self.tr.get(x)
            if t is not None and t.alive:
                if y in self.ro:
                    t._onReadonlyNodeDisconnected(Node(y))
                else:
                    t._onNodeDisconnected(TCPNode(y))

    def kill(self, a):
        t = self.tr.get(a)
        if t is None:
            return
        t.alive = False
        for l in list(self.links):
            if a in l:
                (b,) = l - {a}
                self.links.discard(l)
                self.q[(a, b)] = []
                self.q[(b, a)] = []
                tb = self.tr.get(b)
                if tb is not None and tb.alive:
                    if a in self.ro:
                        tb._onReadonlyNodeDisconnected(Node(a))
                    else:
                        tb._onNodeDisconnected(TCPNode(a))

    def send(self, t, node, message):
        if not t.alive or not self.isUp(t.id, node.id):
            return False
        self.q[(t.id, node.id)].append(pickle.dumps(message))
        return True

    def pending(self, a, b):
        return len(self.q.get((a, b), []))

    def deliver(self, a, b, n=None, fromPoll=False):
        """Deliver the first n (default: all) messages in flight from a to b, in order."""
        cnt = 0
        if b in self.pollDriven and not fromPoll:
            return 0
        while self.isUp(a, b) and self.q[(a, b)] and (n is None or cnt < n):
            raw = self.q[(a, b)].pop(0)
            msg = pickle.loads(raw)
            if self.trace:
                print('   %s -> %s: %s' % (a, b, _short(msg)))
            self.tr[b]._onMessageReceived(mkNode(a), msg)
            cnt += 1
        return cnt

    def flush(self, rounds=50):
        """Deliver everything in flight (and the replies it provokes) until quiescent."""
        for _ in range(rounds):
            moved = 0
            for (a, b) in sorted(self.q.keys()):
                moved += self.deliver(a, b)
            if not moved:
                return
        raise RuntimeError('network does not become quiescent')

    def tick(self, *ids):
        for i in ids:
            if self.tr[i].alive:
                self.obj[i]._onTick(0.0)

    def run(self, steps, order, dt=0.1):
        """steps x (advance clock by dt; tick the nodes in the given order, delivering all traffic after each tick)."""
        for _ in range(steps):
            advance(dt)
            for i in order:
                self.tick(i)
                self.flush()


def _short(msg):
    if not isinstance(msg, dict):
        return repr(msg)[:80]
    m = dict(msg)
    if 'entries' in m:
        m['entries'] = [(e[1], e[2], e[0][:1]) for e in m['entries']]
    if 'serialized' in m and m['serialized'] is not None:
        m['serialized'] = ('<%d bytes>' % len(m['serialized'][0]),) + tuple(m['serialized'][1:])
    return m


def members(obj):
    s = set(n.id for n in obj.otherNodes)
    if obj.selfNode is not None:
        s.add(obj.selfNode.id)
    return s


def raftlog(obj):
    return [(e[1], e[2], e[0]) for e in obj._SyncObj__raftLog[:]]


# ----------------------------------------------------------------------------------------------------------
# Scenario
# ----------------------------------------------------------------------------------------------------------

class KV(SyncObj):
    def __init__(self, net, me, others):
        conf = SyncObjConf(autoTick=False, dynamicMembershipChange=True,
                           logCompactionMinEntries=10 ** 6, logCompactionMinTime=10 ** 6)
        t = SimTransport(net, me, others)
        net.tr[me] = t
        super(KV, self).__init__(me, others, conf=conf, transport=t)
        self.vals = []
        net.obj[me] = self

    @replicated
    def put(self, v):
        self.vals.append(v)
        return len(self.vals)


A, B, C, D = 'a:1', 'b:1', 'c:1', 'd:1'
ALL = [A, B, C, D]
net = Net()
net.trace = '-v' in sys.argv
o = {}
for n in ALL:
    o[n] = KV(net, n, [x for x in ALL if x != n])

results = {}
violations = []


def cb(name):
    def f(res, err):
        results[name] = (res, err)
    return f


def show(title):
    print('--- ' + title)
    for n in ALL:
        x = o[n]
        print('  %s term=%d %s commit=%d applied=%d members=%s vals=%s\n      log=%s' % (
            n, x.raftCurrentTerm, 'LEADER  ' if x._isLeader() else 'follower', x.raftCommitIndex, x.raftLastApplied,
            sorted(members(x)), x.vals, [(i, t, {0: 'cmd', 1: 'noop', 2: 'MEMBER'}[c[0]]) for i, t, c in raftlog(x)]))


def membershipEntries(x):
    return [pickle.loads(c[1:])[:2] for i, t, c in raftlog(x) if c[:1] == b'\x02']


# 1. B is partitioned away from the start. A, C, D elect A (term 1) and commit six commands (indexes 3..8).
for x, y in ((A, C), (A, D), (C, D)):
    assert net.connect(x, y)
advance(2.0)
net.tick(A)
net.flush()
assert o[A]._isLeader()
net.run(3, [A, C, D, B])
for i in range(6):
    o[A].put(i, callback=cb('put%d' % i))
    net.run(2, [A, C, D, B])
net.run(4, [A, C, D, B])
assert o[A].raftLastApplied == o[C].raftLastApplied == o[D].raftLastApplied == 8
assert o[B].raftLastApplied == 1

# 2. A loses its connections to C and D. It then accepts "remove D" (entry 9: appended, member set of A becomes
#    {A,B,C}, never replicated to anybody) and compacts its log. The snapshot describes the state machine at index 8
#    but stores A's *current* member set, i.e. with the uncommitted entry 9 already applied.
net.disconnect(A, C)
net.disconnect(A, D)
o[A].removeNodeFromCluster(D, callback=cb('remD'))
o[A].forceLogCompaction()
advance(0.1); net.tick(A)   # appends "rem D" at index 9 and serializes
advance(0.1); net.tick(A)   # compaction finished: A's log is trimmed to [7, 8, 9]
assert [e[0] for e in raftlog(o[A])] == [7, 8, 9] and o[A].raftCommitIndex == 8

# 3. B gets a connection to A. A sends the snapshot (2 messages) followed by entry 9; the connection breaks after
#    the snapshot arrived, the rest of the stream is lost with the connection.
assert net.connect(A, B)
advance(0.1); net.tick(A)
while o[B].raftLastApplied < 8:
    assert net.deliver(A, B, 1) == 1
assert net.pending(A, B) == 1      # entry 9, lost:
net.disconnect(A, B)
assert [e[0] for e in raftlog(o[B])] == [7, 8] and o[B].vals == [0, 1, 2, 3, 4, 5]

# 4. A stays cut off. C times out first and wins term 2 with the votes of B and D; its no-op (index 9) commits.
assert net.connect(B, C)
bd = net.connect(B, D)       # refused by B: D is not in B's member table any more
advance(2.0)
net.tick(C); net.flush()
assert o[C]._isLeader() and o[C].raftCurrentTerm == 2
net.run(5, [C, D, B, A])
show('after step 4: C leads term 2; B, C, D hold the same log up to index 9, all of it committed')
assert o[B].raftCommitIndex == o[C].raftCommitIndex == o[D].raftCommitIndex == 9
assert raftlog(o[B])[-3:] == raftlog(o[C])[-3:] == raftlog(o[D])[-3:]
assert membershipEntries(o[B]) == membershipEntries(o[C]) == membershipEntries(o[D]) == []
if members(o[B]) != members(o[C]):
    violations.append('C10 member sets disagree although B and C hold the same fully committed log without any '
                      'membership entry: B=%s C=%s (B refused the connection of member D: %s)'
                      % (sorted(members(o[B])), sorted(members(o[C])), not bd))

# 5. The network splits into {A, B} and {C, D}. B hears nothing from a current leader (A still believes to lead
#    term 1), times out and is elected for term 3 by A's vote alone: 2 votes are a majority of B's member set
#    {A,B,C}, but not of the real one. B commits 'y' at index 11 with A's acknowledgement.
net.disconnect(B, C)
assert net.connect(A, B)
for _ in range(20):
    net.run(1, [C, D, A, B])
    if o[B]._isLeader():
        break
assert o[B]._isLeader() and o[B].raftCurrentTerm == 3
o[B].put('y', callback=cb('y'))
net.run(4, [C, D, B, A])

# 6. C, still the leader of term 2 on its side, removes A (a legal single change: its own no-op is committed, nothing
#    else is pending). Its member set becomes {B,C,D}, of which C and D are a majority; it commits 'x' at index 11.
assert o[C]._isLeader() and o[C].raftCurrentTerm == 2
o[C].removeNodeFromCluster(A, callback=cb('remA'))
net.run(3, [C, D, B, A])
o[C].put('x', callback=cb('x'))
net.run(4, [C, D, B, A])
show('after step 6: two leaders committed different entries at index 10 and 11')
print('callbacks:', dict((k, v) for k, v in results.items() if not k.startswith('put')))

eB = [e for e in raftlog(o[B]) if e[0] == 11][0]
eC = [e for e in raftlog(o[C]) if e[0] == 11][0]
if o[B].raftLastApplied >= 11 and o[C].raftLastApplied >= 11 and eB != eC:
    violations.append('C10 (C03/C04 under membership change): index 11 was applied as term %d on A and B (vals %s) and as '
                      'term %d on C (vals %s); both callbacks reported SUCCESS: y=%s x=%s'
                      % (eB[1], o[B].vals, eC[1], o[C].vals, results.get('y'), results.get('x')))

for v in violations:
    print('PROPERTY VIOLATED: ' + v)
sys.exit(1 if violations else 0)
