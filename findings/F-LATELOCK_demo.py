#!/usr/bin/env python3
"""
finding5.py  -  C16: a client that is told "acquisition failed" (it took longer than autoUnlockTime/2) can keep the lock
                for ever, and nobody else can ever obtain it.

ReplLockManager.tryAcquire() undoes a late acquisition with a fire-and-forget release (no callback, no retry).  When that
one message is lost (it is in flight when the connection to the leader drops - the very kind of network trouble that
made the acquisition slow), the lock table keeps (lockID -> this client).  The client's own prolongation thread then
prolongs *every* entry of the table that carries its client id - it does not know or care which locks the client
believes it holds - so the entry never expires.

Observable: tryAcquire() reported False to client X, yet X.isAcquired() is True from then on and client Y's tryAcquire()
fails 30, 60, 90 s later (autoUnlockTime is 10 s), although X never successfully acquired anything.

Deterministic set-up: in-memory transport, one virtual clock for Raft and for the lock clients (pysyncobj.batteries.time is
replaced), manual ticks.  The background thread of each ReplLockManager is stopped at once and replaced by the harness
doing exactly what the thread does ('if leader known: impl.prolongate(selfID, now)' every autoUnlockTime/4).

exit 1 + 'PROPERTY VIOLATED: C16 ...' when the defect shows, 0 otherwise.
"""
import os
import sys
import pickle
import random
import collections

sys.path.insert(0, os.path.dirname(os.path.abspath(__file__)))

import pysyncobj.syncobj as _so
import pysyncobj.transport as _tr
from pysyncobj import SyncObj, SyncObjConf, FAIL_REASON
from pysyncobj.node import Node
from pysyncobj.transport import Transport


# --------------------------------------------------------------------------------------------------------------------
# deterministic harness: virtual clock + in-memory network with one FIFO queue per directed link
# --------------------------------------------------------------------------------------------------------------------
class Clock(object):
    def __init__(self):
        self.t = 1000.0

    def __call__(self):
        return self.t


CLOCK = Clock()
_so.monotonicTime = CLOCK
_tr.monotonicTime = CLOCK


class Net(object):
    """Connections are per unordered pair.  A live connection delivers in order and loses nothing; a disconnect loses
    everything in flight in both directions (TCP semantics)."""

    def __init__(self):
        self.transports = {}
        self.up = set()
        self.queues = collections.defaultdict(collections.deque)
        self.held = set()  # directed links whose messages are currently delayed

    def connect(self, a, b):
        key = frozenset((a, b))
        if key in self.up:
            return
        self.up.add(key)
        self.transports[a]._onNodeConnected(Node(b))
        self.transports[b]._onNodeConnected(Node(a))

    def disconnect(self, a, b):
        key = frozenset((a, b))
        if key not in self.up:
            return
        self.up.discard(key)
        self.queues[(a, b)].clear()
        self.queues[(b, a)].clear()
        for x, y in ((a, b), (b, a)):
            if x in self.transports:
                self.transports[x]._onNodeDisconnected(Node(y))

    def send(self, src, dst, message):
        if frozenset((src, dst)) not in self.up:
            return False
        self.queues[(src, dst)].append(pickle.dumps(message))
        return True

    def deliverLink(self, src, dst, count=None):
        q = self.queues[(src, dst)]
        n = 0
        while q and (count is None or n < count):
            msg = pickle.loads(q.popleft())
            self.transports[dst]._onMessageReceived(Node(src), msg)
            n += 1
        return n

    def deliverAll(self):
        progress = True
        while progress:
            progress = False
            for (src, dst) in sorted(self.queues):
                if (src, dst) in self.held:
                    continue
                if self.deliverLink(src, dst):
                    progress = True


class MemTransport(Transport):
    def __init__(self, net, selfId):
        super(MemTransport, self).__init__(None, None, None)
        self.net = net
        self.id = selfId
        net.transports[selfId] = self

    def send(self, node, message):
        return self.net.send(self.id, node.id, message)


def makeConf(**kw):
    args = dict(autoTick=False, raftMinTimeout=10.0, raftMaxTimeout=20.0, appendEntriesPeriod=0.5,
                connectionTimeout=40.0, leaderFallbackTimeout=100.0, commandsWaitLeader=True,
                appendEntriesUseBatch=True, logCompactionMinEntries=100000, logCompactionMinTime=1000000,
                dynamicMembershipChange=False)
    args.update(kw)
    return SyncObjConf(**args)


class Cluster(object):
    def __init__(self, ids, factory):
        self.net = Net()
        self.ids = list(ids)
        self.objs = {}
        self.factory = factory
        for i in self.ids:
            self.start(i)
        for i, a in enumerate(self.ids):
            for b in self.ids[i + 1:]:
                self.net.connect(a, b)

    def start(self, i):
        transport = MemTransport(self.net, i)
        self.objs[i] = self.factory(Node(i), [Node(j) for j in self.ids if j != i], transport)
        return self.objs[i]

    def tickAll(self, only=None):
        for i in self.ids:
            if i in self.objs and (only is None or i in only):
                self.objs[i]._onTick(0.0)

    def run(self, duration, dt=0.25, only=None):
        steps = int(round(duration / dt))
        for _ in range(steps):
            CLOCK.t += dt
            self.tickAll(only)
            self.net.deliverAll()

    def leader(self):
        leaders = [i for i in self.ids if i in self.objs and self.objs[i]._isLeader()]
        return leaders[0] if len(leaders) == 1 else None

    def electLeader(self):
        for _ in range(400):
            self.run(0.25)
            l = self.leader()
            if l is not None and all(o._getLeader() is not None and o._getLeader().id == l for o in self.objs.values()):
                self.run(2.0)
                return l
        raise RuntimeError('no leader elected')


# --------------------------------------------------------------------------------------------------------------------
# scenario
# --------------------------------------------------------------------------------------------------------------------
import time as _realTime
import pysyncobj.batteries as _bat
from pysyncobj.batteries import ReplLockManager


class FakeTimeModule(object):
    @staticmethod
    def time():
        return CLOCK.t

    @staticmethod
    def sleep(x):
        _realTime.sleep(0.001)


_bat.time = FakeTimeModule

U = 10.0


def main():
    random.seed(1)
    managers = {}

    def factory(selfNode, others, transport):
        lm = ReplLockManager(autoUnlockTime=U, selfID='client-' + selfNode.id)
        lm.destroy()                                    # stop the wall-clock thread; the harness plays its part
        lm._ReplLockManager__thread.join()
        managers[selfNode.id] = lm
        return SyncObj(selfNode, others, conf=makeConf(), consumers=[lm], nodeClass=Node, transport=transport)

    cl = Cluster(['a', 'b', 'c'], factory)
    net = cl.net
    L = cl.electLeader()
    X, Y = [i for i in cl.ids if i != L]       # client X lives on follower X, client Y on follower Y
    lastProlong = {}

    def prolongationThreads():
        # body of ReplLockManager._autoAcquireThread
        for i in cl.ids:
            if CLOCK.t - lastProlong.get(i, 0) < U / 4.0:
                continue
            if cl.objs[i]._getLeader() is not None:
                lastProlong[i] = CLOCK.t
                managers[i]._consumer().prolongate('client-' + i, CLOCK.t)

    def run(duration, dt=0.25):
        for _ in range(int(round(duration / dt))):
            prolongationThreads()
            cl.run(dt, dt)

    run(3.0)
    told = {}

    def cb(tag):
        def f(res, err):
            told.setdefault(tag, []).append((res, err, CLOCK.t))
        return f

    # X tries to acquire.  The leader's outgoing traffic is slow for 6 s (> U/2): the acquisition commits late.
    t0 = CLOCK.t
    managers[X].tryAcquire('res', callback=cb('X'))
    cl.objs[X]._onTick(0.0)
    net.deliverAll()
    net.held.update([(L, X), (L, Y)])
    run(6.0)
    net.held.clear()
    # the entry reaches the followers, is acknowledged, committed and applied; X's wrapper notices "too late",
    # reports False and sends the release towards the leader
    for _ in range(40):
        CLOCK.t += 0.05
        for i in (L, X, Y):
            cl.objs[i]._onTick(0.0)
        net.deliverLink(L, X)
        net.deliverLink(L, Y)
        net.deliverLink(Y, L)
        if 'X' in told:
            break
        net.deliverLink(X, L)
    assert told.get('X') and told['X'][0][0] is False and told['X'][0][1] == FAIL_REASON.SUCCESS, told
    assert told['X'][0][2] - t0 > U / 2.0
    cl.objs[X]._onTick(0.0)                       # the release leaves X ...
    inFlight = [pickle.loads(m) for m in net.queues[(X, L)]]
    assert any(m['type'] == 'apply_command' and 'request_id' not in m for m in inFlight), inFlight
    net.disconnect(X, L)                           # ... and is lost with the connection
    net.connect(X, L)

    # from now on the network is perfect
    observations = []
    for k in range(3):
        run(30.0)
        tag = 'Y%d' % k
        managers[Y].tryAcquire('res', callback=cb(tag))
        run(4.0)
        observations.append((CLOCK.t - t0, managers[X].isAcquired('res'), told.get(tag)))

    print('X: tryAcquire started at t0, was told %r after %.2f s (autoUnlockTime %.0f s)'
          % (told['X'][0][:2], told['X'][0][2] - t0, U))
    for t, xHolds, y in observations:
        print('t0+%5.1f s: X.isAcquired(res) = %-5s  Y.tryAcquire(res) -> %r' % (t, xHolds, y[0][:2] if y else None))

    xKeeps = [o for o in observations if o[1]]
    yStarves = [o for o in observations if not (o[2] and o[2][0][0])]
    if xKeeps or yStarves:
        print('PROPERTY VIOLATED: C16 client X was told its acquisition failed (too slow) but keeps the lock '
              '(isAcquired True %d s later), and client Y could not obtain the lock in %d attempts over %d s although '
              'autoUnlockTime is %d s' % (xKeeps[-1][0] if xKeeps else 0, len(yStarves), observations[-1][0], U))
        return 1
    print('ok')
    return 0


if __name__ == '__main__':
    sys.exit(main())
