#!/usr/bin/env python
"""
finding2 - C17: a node running OLD code (highest version it knows: 0) that catches up from a SNAPSHOT taken
after the cluster switched to code version 1 silently adopts 'enabled version 1', moves its applied index
past the VERSION entry and keeps applying commands - although the same node, fed the same history entry by
entry, stops at the VERSION entry ("request to switch to unsupported code version", syncobj.py
__doApplyCommand / __applyLogEntries). getCodeVersion() then reports a version the node does not have, its
own calls keep resolving to the _v0 implementations, and the first command that names a _v1 method makes every
tick of that node raise KeyError out of _onTick()/doTick().

Schedule (a, b run the new code, c the old code; in-memory transport, manual ticks, controllable clock):
  1. all connected, a is leader; foo(1) is executed as foo_v0 everywhere.
  2. c is cut off. a: setCodeVersion(1) (commits with a+b), foo(2) runs as foo_v1 on a and b.
  3. a and b compact their logs (forceLogCompaction): the VERSION entry now exists only inside the snapshot.
  4. zed(3) (a method that exists in both codes) is submitted and applied on a, b.
  5. c is reconnected: it gets the snapshot, then zed(3).
Expected (C17): c lacks version 1, so it must not get past the VERSION entry (it "stops applying").
Observed: c.getCodeVersion() == 1 although c supports only 0, c.raftLastApplied is beyond the VERSION entry and
c executed zed(3). A later abc(4) (new in version 1) makes c._onTick() raise KeyError on every tick.

Exit code 1 + 'PROPERTY VIOLATED: C17 ...' when the defect shows, 0 otherwise.
"""
import sys, os, pickle as _pk, logging
sys.path.insert(0, os.path.dirname(os.path.abspath(__file__)))
import pysyncobj.syncobj as _so
from pysyncobj import SyncObj, SyncObjConf, replicated
from pysyncobj.node import Node
from pysyncobj.transport import Transport

logging.disable(logging.CRITICAL)


class Clock(object):
    now = 1000.0

    def __call__(self):
        return self.now


CLOCK = Clock()
_so.monotonicTime = CLOCK


class MemTransport(Transport):
    def __init__(self, net, selfId):
        Transport.__init__(self, None, None, None)
        self.net, self.selfId = net, selfId

    def send(self, node, message):
        return self.net.send(self.selfId, node.id, message)


class Net(object):
    """FIFO queue per direction of a link; a link is up or down; nothing is lost on a link that is up."""

    def __init__(self):
        self.objs, self.trs, self.up, self.q = {}, {}, set(), {}

    def add(self, nid, factory):
        self.trs[nid] = MemTransport(self, nid)
        self.objs[nid] = factory(self.trs[nid])

    def connect(self, a, b):
        self.up.add(frozenset((a, b)))
        self.q[(a, b)], self.q[(b, a)] = [], []
        self.trs[a]._onNodeConnected(Node(b))
        self.trs[b]._onNodeConnected(Node(a))

    def disconnect(self, a, b):
        # the connection is lost: everything in flight on it is lost with it
        self.up.discard(frozenset((a, b)))
        self.q[(a, b)], self.q[(b, a)] = [], []
        self.trs[a]._onNodeDisconnected(Node(b))
        self.trs[b]._onNodeDisconnected(Node(a))

    def send(self, src, dst, message):
        if frozenset((src, dst)) not in self.up:
            return False
        self.q[(src, dst)].append(_pk.dumps(message, 2))
        return True

    def deliverAll(self):
        busy = True
        while busy:
            busy = False
            for (s, d) in sorted(self.q):
                while self.q[(s, d)]:
                    busy = True
                    self.trs[d]._onMessageReceived(Node(s), _pk.loads(self.q[(s, d)].pop(0)))

    def run(self, seconds, only=None):
        t = 0.0
        while t < seconds:
            CLOCK.now += 0.05
            t += 0.05
            for i in (only or sorted(self.objs)):
                self.objs[i]._onTick(0.0)
            self.deliverAll()



class Old(SyncObj):
    def __init__(self, *a, **k):
        super(Old, self).__init__(*a, **k)
        self.l = []

    @replicated
    def foo(self, x):
        self.l.append(('foo_v0', x))

    @replicated
    def zed(self, x):
        self.l.append(('zed_v0', x))


class New(SyncObj):
    def __init__(self, *a, **k):
        super(New, self).__init__(*a, **k)
        self.l = []

    @replicated(ver=0)
    def foo(self, x):
        self.l.append(('foo_v0', x))

    @replicated(ver=1)
    def foo(self, x):
        self.l.append(('foo_v1', x))

    @replicated
    def zed(self, x):
        self.l.append(('zed_v0', x))

    @replicated(ver=1)
    def abc(self, x):
        self.l.append(('abc_v1', x))


IDS = ['a', 'b', 'c']
CODE = {'a': New, 'b': New, 'c': Old}


def factory(i):
    def f(tr):
        conf = SyncObjConf(autoTick=False, useFork=False, connectionTimeout=1000, leaderFallbackTimeout=1000,
                           logCompactionMinEntries=10 ** 9, logCompactionMinTime=10 ** 9)
        return CODE[i](Node(i), [Node(x) for x in IDS if x != i], conf=conf, transport=tr, nodeClass=Node)
    return f


def main():
    net = Net()
    for i in IDS:
        net.add(i, factory(i))
    A, B, C = [net.objs[i] for i in IDS]
    # ids of the methods both codes know are the same in both codes
    assert all(A._methodToID[k] == C._methodToID[k] for k in C._methodToID)
    cSupports = C.getStatus()['self_code_version']
    assert cSupports == 0
    net.connect('a', 'b'); net.connect('a', 'c'); net.connect('b', 'c')
    t = 0
    while not A._isLeader() and t < 1000:
        net.run(0.05, only=['a'])
        t += 1
    assert A._isLeader()
    net.run(0.5)
    A.foo(1)
    net.run(0.5)
    assert A.l == B.l == C.l == [('foo_v0', 1)]

    net.disconnect('a', 'c'); net.disconnect('b', 'c')
    res = []
    A.setCodeVersion(1, callback=lambda r, e: res.append(e))
    net.run(0.5, only=['a', 'b'])
    assert res == [0] and A.getCodeVersion() == B.getCodeVersion() == 1
    versionEntryIdx = A.raftLastApplied            # the VERSION entry is the last applied one right now
    A.foo(2)
    net.run(0.5, only=['a', 'b'])
    assert A.l == B.l == [('foo_v0', 1), ('foo_v1', 2)]
    A.forceLogCompaction(); B.forceLogCompaction()
    net.run(0.5, only=['a', 'b'])
    assert A._getRaftLogSize() == 2
    B.zed(3)
    net.run(0.5, only=['a', 'b'])

    net.connect('a', 'c'); net.connect('b', 'c')
    net.run(2.0)
    print('VERSION entry index %d; c supports code version %d' % (versionEntryIdx, cSupports))
    print('c: enabled version %d, lastApplied %d, state %r' % (C.getCodeVersion(), C.raftLastApplied, C.l))
    bad = []
    if C.getCodeVersion() > cSupports:
        bad.append('old-code node reports enabled version %d, it only has %d' % (C.getCodeVersion(), cSupports))
    if C.raftLastApplied >= versionEntryIdx:
        bad.append('old-code node applied up to %d, past the VERSION entry at %d it cannot execute'
                   % (C.raftLastApplied, versionEntryIdx))
    # what it leads to: the node keeps going until a _v1 method id shows up, then every tick raises
    A.abc(4)
    exc = None
    try:
        net.run(0.5)
    except Exception as e:
        exc = e
    print('after abc(4): tick of c raised %r' % (exc,))
    if bad:
        print('PROPERTY VIOLATED: C17 ' + '; '.join(bad))
        return 1
    print('ok')
    return 0


if __name__ == '__main__':
    sys.exit(main())
