"""finding2.py - C10: a removed node that returns as a fresh, empty process under its old address gives a lagging
member with a stale member set a bogus majority.

Nothing in SyncObj ties a vote or an acknowledgement to the configuration the sender belongs to: a node that was
started empty "with the current member list" votes (request_vote handler, syncobj.py:857-883) and acknowledges entries for
any peer its transport accepts, before it has seen a single entry of the real log. A member that missed the whole
membership history still counts that address as one of its voters.

Run: python3 finding2.py [-v]      exit 1 = property violated
"""
# Deterministic in-memory harness for PySyncObj: virtual clock + FIFO links that behave like TCP
# connections (ordered, lossless while up; everything in flight is lost when the link goes down;
# a peer that is not in the local member table is refused, as TCPTransport does).
import os
import sys
import pickle

sys.path.insert(0, os.path.dirname(os.path.abspath(__file__)))

import pysyncobj.syncobj as _so
import pysyncobj.transport as _tr
import pysyncobj.tcp_connection as _tc
from pysyncobj import SyncObj, SyncObjConf, replicated, FAIL_REASON
from pysyncobj.transport import Transport
from pysyncobj.node import Node, TCPNode


class Clock(object):
    t = 1000.0


def _now():
    return Clock.t


_so.monotonicTime = _now
_tr.monotonicTime = _now
_tc.monotonicTime = _now


def advance(dt):
    Clock.t += dt


class SimTransport(Transport):
    def __init__(self, net, selfId, others):
        super(SimTransport, self).__init__(None, None, None)
        self.net = net
        self.id = selfId            # None for a read-only node
        self.known = set(others)    # ids of the voters this node accepts / talks to
        self.alive = True
        self.roPeers = {}           # voter side: name of read-only peer -> Node object

    def addNode(self, node):
        self.known.add(node.id)

    def dropNode(self, node):
        self.known.discard(node.id)
        if self.net.isUp(self.id, node.id):
            self.net.disconnect(self.id, node.id)

    def send(self, node, message):
        return self.net.send(self, node, message)

    def destroy(self):
        self.net.kill(self.id)


def mkNode(i):
    return TCPNode(i) if ':' in i else Node(i)


class Net(object):
    def __init__(self):
        self.ro = set()     # ids of read-only nodes
        self.pollDriven = set()  # ids of nodes that receive messages only inside their own poll()
        self.tr = {}        # id -> SimTransport
        self.obj = {}       # id -> SyncObj
        self.links = set()  # frozenset((a, b))
        self.q = {}         # (src, dst) -> [pickled message]
        self.trace = False

    def isUp(self, a, b):
        return frozenset((a, b)) in self.links

    def connect(self, a, b):
        """TCP connect between two voters. Refused unless each side has the other in its member table."""
        if self.isUp(a, b):
            return True
        if b in self.ro:
            a, b = b, a
        ta, tb = self.tr.get(a), self.tr.get(b)
        if ta is None or tb is None or not ta.alive or not tb.alive:
            return False
        if a in self.ro:
            # a read-only node dials a voter it knows; the voter accepts any read-only peer
            if b not in ta.known:
                return False
            self.links.add(frozenset((a, b)))
            self.q[(a, b)] = []
            self.q[(b, a)] = []
            ta._onNodeConnected(TCPNode(b))
            tb._onReadonlyNodeConnected(Node(a))
            return True
        if b not in ta.known or a not in tb.known:
            return False
        self.links.add(frozenset((a, b)))
        self.q[(a, b)] = []
        self.q[(b, a)] = []
        ta._onNodeConnected(TCPNode(b))
        tb._onNodeConnected(TCPNode(a))
        return True

    def disconnect(self, a, b):
        """Connection loss: everything in flight in both directions is lost."""
        if not self.isUp(a, b):
            return
        self.links.discard(frozenset((a, b)))
        self.q[(a, b)] = []
        self.q[(b, a)] = []
        for x, y in ((a, b), (b, a)):
            t = self.tr.get(x)
            if t is not None and t.alive:
                if y in self.ro:
                    t._onReadonlyNodeDisconnected(Node(y))
                else:
                    t._onNodeDisconnected(TCPNode(y))

    def kill(self, a):
        t = self.tr.get(a)
        if t is None:
            return
        t.alive = False
        for l in list(self.links):
            if a in l:
                (b,) = l - {a}
                self.links.discard(l)
                self.q[(a, b)] = []
                self.q[(b, a)] = []
                tb = self.tr.get(b)
                if tb is not None and tb.alive:
                    if a in self.ro:
                        tb._onReadonlyNodeDisconnected(Node(a))
                    else:
                        tb._onNodeDisconnected(TCPNode(a))

    def send(self, t, node, message):
        if not t.alive or not self.isUp(t.id, node.id):
            return False
        self.q[(t.id, node.id)].append(pickle.dumps(message))
        return True

    def pending(self, a, b):
        return len(self.q.get((a, b), []))

    def deliver(self, a, b, n=None, fromPoll=False):
        """Deliver the first n (default: all) messages in flight from a to b, in order."""
        cnt = 0
        if b in self.pollDriven and not fromPoll:
            return 0
        while self.isUp(a, b) and self.q[(a, b)] and (n is None or cnt < n):
            raw = self.q[(a, b)].pop(0)
            msg = pickle.loads(raw)
            if self.trace:
                print('   %s -> %s: %s' % (a, b, _short(msg)))
            self.tr[b]._onMessageReceived(mkNode(a), msg)
            cnt += 1
        return cnt

    def flush(self, rounds=50):
        """Deliver everything in flight (and the replies it provokes) until quiescent."""
        for _ in range(rounds):
            moved = 0
            for (a, b) in sorted(self.q.keys()):
                moved += self.deliver(a, b)
            if not moved:
                return
        raise RuntimeError('network does not become quiescent')

    def tick(self, *ids):
        for i in ids:
            if self.tr[i].alive:
                self.obj[i]._onTick(0.0)

    def run(self, steps, order, dt=0.1):
        """steps x (advance clock by dt; tick the nodes in the given order, delivering all traffic after each tick)."""
        for _ in range(steps):
            advance(dt)
            for i in order:
                self.tick(i)
                self.flush()


def _short(msg):
    if not isinstance(msg, dict):
        return repr(msg)[:80]
    m = dict(msg)
    if 'entries' in m:
        m['entries'] = [(e[1], e[2], e[0][:1]) for e in m['entries']]
    if 'serialized' in m and m['serialized'] is not None:
        m['serialized'] = ('<%d bytes>' % len(m['serialized'][0]),) + tuple(m['serialized'][1:])
    return m


def members(obj):
    s = set(n.id for n in obj.otherNodes)
    if obj.selfNode is not None:
        s.add(obj.selfNode.id)
    return s


def raftlog(obj):
    return [(e[1], e[2], e[0]) for e in obj._SyncObj__raftLog[:]]


# ----------------------------------------------------------------------------------------------------------
# Scenario
# ----------------------------------------------------------------------------------------------------------

class KV(SyncObj):
    def __init__(self, net, me, others):
        conf = SyncObjConf(autoTick=False, dynamicMembershipChange=True,
                           logCompactionMinEntries=10 ** 6, logCompactionMinTime=10 ** 6)
        t = SimTransport(net, me, others)
        net.tr[me] = t
        super(KV, self).__init__(me, others, conf=conf, transport=t)
        self.vals = []
        net.obj[me] = self

    @replicated
    def put(self, v):
        self.vals.append(v)
        return len(self.vals)


A, B, C, D = 'a:1', 'b:1', 'c:1', 'd:1'
net = Net()
net.trace = '-v' in sys.argv
o = {}
for n in (A, B, C):
    o[n] = KV(net, n, [x for x in (A, B, C) if x != n])

results = {}
violations = []


def cb(name):
    def f(res, err):
        results[name] = (res, err)
    return f


def run(steps, order, want=()):
    """like net.run, but the listed pairs keep trying to (re)connect, as TCPTransport does"""
    for _ in range(steps):
        for x, y in want:
            net.connect(x, y)
        net.run(1, order)


def show(title):
    print('--- ' + title)
    for n in sorted(o):
        x = o[n]
        print('  %s %s term=%d %s commit=%d applied=%d members=%s vals=%s\n      log=%s' % (
            n, 'up  ' if net.tr[n].alive else 'DOWN', x.raftCurrentTerm, 'LEADER  ' if x._isLeader() else 'follower',
            x.raftCommitIndex, x.raftLastApplied, sorted(members(x)), x.vals,
            [(i, t, {0: 'cmd', 1: 'noop', 2: 'MEMBER'}[c[0]]) for i, t, c in raftlog(x)]))


# 1. Cluster {A,B,C}. C is partitioned away from the very start (it stays at index 1, term 0, member set {A,B,C}).
#    A and B elect B (term 1) and commit two commands (indexes 3, 4).
assert net.connect(A, B)
advance(2.0)
net.tick(B); net.flush()
assert o[B]._isLeader() and o[B].raftCurrentTerm == 1
net.run(3, [B, A, C])
for i in range(2):
    o[B].put('p%d' % i, callback=cb('p%d' % i))
    net.run(3, [B, A, C])
assert results['p1'] == (2, FAIL_REASON.SUCCESS)

# 2. Add D: the operator starts D empty with the current member list and asks the leader to add it. Commits with A, B, D.
o[D] = KV(net, D, [A, B, C])
o[B].addNodeToCluster(D, callback=cb('addD'))
run(8, [B, A, D, C], want=[(D, A), (D, B)])
assert results['addD'] == (None, FAIL_REASON.SUCCESS)

# 3. Remove A. Commits with B and D (2 of {B,C,D}). The callback reports SUCCESS, the operator shuts A down.
o[B].removeNodeFromCluster(A, callback=cb('remA'))
net.run(6, [B, D, A, C])
assert results['remA'] == (None, FAIL_REASON.SUCCESS)
o[A].destroy()
assert members(o[B]) == members(o[D]) == {B, C, D}
show('after step 3: A removed (committed) and shut down; C still knows nothing')

# 4. A comes back as documented: a fresh, empty process started with the current member list {B,C,D}; the operator
#    asks the leader to add it. A's connection to B is not up yet, the one between A and C is (C's partition ends there).
o[A] = KV(net, A, [B, C, D])
o[B].addNodeToCluster(A, callback=cb('addA'))
assert net.connect(A, C)       # both sides have each other in their member table

# 5. C times out. Its member set is still {A,B,C}; the fresh A grants its vote (equal logs), and C "wins" with 2 of 3.
for _ in range(20):
    net.run(1, [B, D, C, A])
    if o[C]._isLeader():
        break
assert o[C]._isLeader()
o[C].put('x', callback=cb('x'))
net.run(5, [B, D, C, A])
show('after step 5: C leads with the vote and the acknowledgements of the re-created A')
print('callbacks:', results)

leaders = [(n, o[n].raftCurrentTerm) for n in sorted(o) if net.tr[n].alive and o[n]._isLeader()]
terms = [t for n, t in leaders]
if len(set(terms)) < len(terms):
    violations.append('C10 (election safety under membership change): two leaders in one term: %s' % leaders)

lb = dict((i, (t, c)) for i, t, c in raftlog(o[B]))
lc = dict((i, (t, c)) for i, t, c in raftlog(o[C]))
idx = 3
if o[B].raftLastApplied >= idx and o[C].raftLastApplied >= idx and lb[idx][1] != lc[idx][1]:
    violations.append('C10 (C03/C04 under membership change): index %d was applied as a different command on B/D (vals %s) '
                      'and on C/A (vals %s); callbacks p0=%s x=%s both report SUCCESS'
                      % (idx, o[B].vals, o[C].vals, results.get('p0'), results.get('x')))

for v in violations:
    print('PROPERTY VIOLATED: ' + v)
sys.exit(1 if violations else 0)
