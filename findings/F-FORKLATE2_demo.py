#!/usr/bin/env python
"""
finding2 - C09 / C06: with useFork (the default) the node's own snapshot is written by a forked child that
renames its file over the dump file whenever it is done.  If the node installs a NEWER snapshot received from the
leader while that child is still writing, the child afterwards replaces the installed snapshot by its own OLDER
one.  From then on (until the next regular compaction: logCompactionMinTime = 300 s / 5000 entries by default)
  dump    = state at index 7  (the child's)
  journal = entries 11, 12, 13...  (cleared and restarted at the installed snapshot)
the node would send that old file as "its snapshot" to others, and a kill leaves files that cannot be reconciled:
the restarted node drops back to index 7 and forgets entries it acknowledged, including a command that was
committed with its acknowledgement and reported SUCCESS.

The child is held back deterministically by an attribute whose pickling waits for a flag file (stands for a big
state / a slow disk).

Exit code 1 + 'PROPERTY VIOLATED: ...' when the defect shows, 0 otherwise.
"""
import os, sys, shutil, pickle, random, collections, tempfile, gzip, logging

sys.path.insert(0, os.path.dirname(os.path.abspath(__file__)))
logging.disable(logging.CRITICAL)

import pysyncobj.syncobj as so
import pysyncobj.transport as tr
from pysyncobj import SyncObj, SyncObjConf, replicated
from pysyncobj.node import Node
from pysyncobj.transport import Transport

random.seed(1)


# ----------------------------------------------------------------------------- deterministic harness
class Clock(object):
    t = 1000.0

    def __call__(self):
        return self.t


CLOCK = Clock()
so.monotonicTime = CLOCK
tr.monotonicTime = CLOCK


class Net(object):
    """One FIFO queue per direction of every connection.  Nothing is lost or reordered while a
    connection is up; everything in flight is dropped when it goes down."""

    def __init__(self):
        self.transports = {}
        self.links = set()
        self.queues = collections.defaultdict(collections.deque)

    def up(self, a, b):
        return frozenset((a, b)) in self.links

    def connect(self, a, b):
        if a not in self.transports or b not in self.transports or self.up(a, b):
            return
        self.links.add(frozenset((a, b)))
        self.transports[a]._onNodeConnected(Node(b))
        self.transports[b]._onNodeConnected(Node(a))

    def disconnect(self, a, b):
        if not self.up(a, b):
            return
        self.links.discard(frozenset((a, b)))
        self.queues[(a, b)].clear()
        self.queues[(b, a)].clear()
        for x, y in ((a, b), (b, a)):
            if x in self.transports:
                self.transports[x]._onNodeDisconnected(Node(y))

    def deliver(self, src, dst, n=None):
        q = self.queues[(src, dst)]
        cnt = 0
        while q and (n is None or cnt < n):
            raw = q.popleft()
            cnt += 1
            if dst in self.transports and self.up(src, dst):
                self.transports[dst]._onMessageReceived(Node(src), pickle.loads(raw))

    def deliverAll(self, hold=()):
        for (src, dst) in sorted(self.queues.keys()):
            if (src, dst) not in hold:
                self.deliver(src, dst)


class SimTransport(Transport):
    def __init__(self, net, selfId):
        Transport.__init__(self, None, None, None)
        self.net, self.selfId = net, selfId
        net.transports[selfId] = self

    def send(self, node, message):
        if not self.net.up(self.selfId, node.id):
            return False
        self.net.queues[(self.selfId, node.id)].append(pickle.dumps(message, 2))
        return True


class KV(SyncObj):
    def __init__(self, selfId, others, conf, net):
        super(KV, self).__init__(Node(selfId), [Node(o) for o in others], conf=conf,
                                 nodeClass=Node, transport=SimTransport(net, selfId))
        self.applied = []

    @replicated
    def add(self, v):
        self.applied.append(v)
        return len(self.applied)


def logOf(o):
    j = getattr(o, '_SyncObj__raftLog')
    return [j[i] for i in range(len(j))]


def dumpIndex(path):
    with open(path, 'rb') as f:
        with gzip.GzipFile(fileobj=f) as g:
            return pickle.load(g)[1][1]


class Cluster(object):
    def __init__(self, ids, cls=None, **confKw):
        self.cls = cls or KV
        self.ids = list(ids)
        self.net = Net()
        self.base = tempfile.mkdtemp(prefix='pso-finding-')
        self.confKw = confKw
        self.objs = {}
        self.gen = collections.defaultdict(int)
        for i in self.ids:
            os.makedirs(self.dir(i))
            self.start(i)

    def dir(self, i):
        return os.path.join(self.base, '%s-%d' % (i, self.gen[i]))

    def dumpPath(self, i):
        return os.path.join(self.dir(i), 'dump')

    def start(self, i):
        kw = dict(autoTick=False, journalFile=os.path.join(self.dir(i), 'journal'), fullDumpFile=self.dumpPath(i),
                  useFork=False, logCompactionMinEntries=10 ** 9, logCompactionMinTime=10 ** 9,
                  raftMinTimeout=1.0, raftMaxTimeout=2.0, appendEntriesPeriod=0.1, leaderFallbackTimeout=10 ** 6)
        kw.update(self.confKw)
        self.objs[i] = self.cls(i, [x for x in self.ids if x != i], SyncObjConf(**kw), self.net)
        return self.objs[i]

    def kill(self, i):
        """kill -9: connections drop, the next incarnation sees the files exactly as they are now."""
        for o in self.ids:
            if o != i:
                self.net.disconnect(i, o)
        self.net.transports.pop(i, None)
        old = self.dir(i)
        self.gen[i] += 1
        shutil.copytree(old, self.dir(i))      # the files as of the kill instant
        obj = self.objs.pop(i)
        try:
            obj._doDestroy()                   # only releases the mmap of the dead incarnation
        except Exception:
            pass

    def tick(self, i, dt=0.0):
        CLOCK.t += dt
        self.objs[i]._onTick(0.0)

    def step(self, dt=0.05, hold=()):
        CLOCK.t += dt
        for i in self.ids:
            if i in self.objs:
                self.objs[i]._onTick(0.0)
        self.net.deliverAll(hold)

    def run(self, n, dt=0.05, hold=()):
        for _ in range(n):
            self.step(dt, hold)

    def elect(self, i):
        setattr(self.objs[i], '_SyncObj__raftElectionDeadline', CLOCK.t - 1)   # i times out first
        self.run(8)
        assert self.objs[i]._isLeader(), 'setup problem: could not elect %s' % i


# ----------------------------------------------------------------------------- the schedule
import time


class Gate(object):
    """Part of the replicated object's state.  Pickling it blocks while Gate.block names a missing file."""
    block = None

    def __getstate__(self):
        if Gate.block is not None:
            while not os.path.exists(Gate.block):
                time.sleep(0.01)
        return {}


class KVGate(KV):
    def __init__(self, *args):
        super(KVGate, self).__init__(*args)
        self.gate = Gate()


def serializerPid(o):
    return getattr(getattr(o, '_SyncObj__serializer'), '_Serializer__pid')


def main():
    c = Cluster(['a', 'b', 'c'], cls=KVGate, useFork=True)
    net = c.net
    A, B, C = c.objs['a'], c.objs['b'], c.objs['c']
    success = []

    def cb(v):
        def f(res, err):
            if err == 0:
                success.append(v)
        return f

    def waitChild(o, i):
        for _ in range(1000):
            c.tick(i)
            if serializerPid(o) == 0:
                return
            time.sleep(0.01)
        raise Exception('setup problem: child did not finish')

    c.step(0.0)
    for x, y in (('a', 'b'), ('a', 'c'), ('b', 'c')):
        net.connect(x, y)
    c.elect('a')
    for v in range(5):
        A.add(v, callback=cb(v))
    c.run(10)
    assert B.applied == [0, 1, 2, 3, 4] and B.raftLastApplied == 7
    # 1. b starts a snapshot of its own (position 7).  The forked child is slow.
    flag = os.path.join(c.base, 'release-child')
    Gate.block = flag
    B.forceLogCompaction()
    c.tick('b')
    Gate.block = None
    assert serializerPid(B) > 0, 'setup problem: no fork'
    # 2. short network problem around b; meanwhile a and c commit five more commands and a compacts its log
    net.disconnect('a', 'b')
    net.disconnect('b', 'c')
    for v in range(5, 10):
        A.add(v, callback=cb(v))
    c.run(10)
    A.forceLogCompaction()
    c.tick('a')
    waitChild(A, 'a')
    assert logOf(A)[0][1] == 11 and dumpIndex(c.dumpPath('a')) == 12
    # 3. b is back.  Its next entry (8) is gone from a's log: a sends its snapshot (index 12), b installs it.
    net.connect('a', 'b')
    net.connect('b', 'c')
    c.run(6)
    assert serializerPid(B) > 0, 'setup problem: child of b finished too early'
    installed = dumpIndex(c.dumpPath('b'))
    assert installed == 12 and B.raftLastApplied == 12 and logOf(B)[0][1] == 11
    # 4. now the child finishes: rename(dump.tmp, dump)
    open(flag, 'w').close()
    waitChild(B, 'b')
    c.run(3)
    regressed = dumpIndex(c.dumpPath('b'))
    print('b: installed the leader\'s snapshot (dump at index %d); after its own child finished the dump file is at '
          'index %d, state at index %d, journal starts at index %d' % (installed, regressed, B.raftLastApplied, logOf(B)[0][1]))
    # 5. c is partitioned from a; X is committed by a and b alone
    net.disconnect('a', 'c')
    A.add('X', callback=cb('X'))
    c.run(6)
    assert 'X' in success and logOf(B)[-1][1] == 13, 'setup problem: X not committed'
    ackedByB = logOf(B)[-1][1]
    # 6. b is killed and restarted (any time within the next minutes would do), a dies
    c.kill('b')
    B = c.start('b')
    c.tick('b')
    lastAfter = logOf(B)[-1][1]
    print('b acknowledged entries up to index %d; after kill + restart its log ends at index %d, applied=%r'
          % (ackedByB, lastAfter, B.applied))
    c.kill('a')
    net.connect('b', 'c')
    c.elect('c')
    C.add('Y', callback=cb('Y'))
    c.run(20)
    print('SUCCESS was reported for: %r' % (success,))
    print('b applied %r' % (B.applied,))
    print('c applied %r' % (C.applied,))
    shutil.rmtree(c.base, ignore_errors=True)

    if regressed < installed or lastAfter < ackedByB or 'X' not in B.applied or 'X' not in C.applied:
        print('PROPERTY VIOLATED: C09 - the dump file of b went back from the installed snapshot (index %d) to the '
              'older snapshot of its own forked child (index %d) although state and journal are at index >= %d; '
              'C06 - after a kill b recovered its log only up to index %d of %d acknowledged, and command X '
              '(reported SUCCESS) is missing from the majority {b, c}' % (installed, regressed, installed, lastAfter, ackedByB))
        return 1
    print('no violation')
    return 0


if __name__ == '__main__':
    sys.exit(main())
