#!/usr/bin/env python3
"""
finding5 - C13: a message that does not fit into the socket buffer in one go is never completed
by the event loop ("regardless of ... partial sends, full socket buffers").

Two TcpConnection objects over a real socket pair, the library's own poller, virtual clock.
No fault at all: both ends stay up and both event loops keep running.

TcpConnection.send() appends the frame to its write buffer and calls __trySendBuffer() once. When the
kernel buffer is full (EAGAIN / short write) the rest stays in the write buffer - but send() never asks
the poller for WRITE readiness. The WRITE branch of __processConnection (the only other place that
flushes) re-subscribes for WRITE only while it is itself running with a non-empty buffer, i.e. it can
only prolong a WRITE interest, never start one. So the tail of the frame just sits there until the
application happens to call send() again - and every further send() pushes exactly one more socket
buffer's worth (about 128 KiB with the default sendBufferSize of 64 KiB).

Consequences in a cluster (see finding6.py): the leader drains its queue towards a follower only once
per appendEntriesPeriod -> about 1.3 MB/s per follower whatever the network could do; heartbeats and
vote requests queue up behind the backlog.
"""
import os
import sys
import socket

sys.path.insert(0, os.path.dirname(os.path.abspath(__file__)))

import pysyncobj.tcp_connection as tc
from pysyncobj.poller import createPoller


class Clock(object):
    now = 1000.0


tc.monotonicTime = lambda: Clock.now


def main():
    poller = createPoller('auto')
    a, b = socket.socketpair()
    a.setblocking(0)
    b.setblocking(0)
    received, disconnects = [], []
    A = tc.TcpConnection(poller, socket=a, timeout=3.5, onDisconnected=lambda: disconnects.append('A'))
    B = tc.TcpConnection(poller, socket=b, timeout=3.5, onMessageReceived=received.append,
                         onDisconnected=lambda: disconnects.append('B'))

    def loop(rounds):
        for _ in range(rounds):
            Clock.now += 0.001
            poller.poll(0)

    loop(5)
    A.send('hello')
    loop(5)
    assert received == ['hello'], 'setup: small messages get through'

    big = os.urandom(4 * 1024 * 1024)   # incompressible, larger than any socket buffer
    A.send(big)
    left0 = A.getSendBufferSize()
    loop(3000)                          # 3 virtual seconds (< read timeout), 3000 event loop rounds on both ends
    left1 = A.getSendBufferSize()
    print('bytes left in the write buffer right after send(): %d, after 3000 poll rounds: %d' % (left0, left1))
    print('messages delivered to the peer: %d of 2, disconnects: %r' % (len(received), disconnects))

    # what it takes to get it through: the application has to keep calling send()
    extra = 0
    while len(received) < 2 and extra < 10000 and not disconnects:
        A.send('poke')
        extra += 1
        loop(2)
    print('the big message arrived only after %d further send() calls' % extra)

    stuck = (len(received) >= 2 and received[1] == big and left1 > 0 and left1 == left0)
    order_ok = received[:2] == ['hello', big] and all(m == 'poke' for m in received[2:])
    assert order_ok, 'messages reordered or corrupted?!'
    if stuck:
        print('PROPERTY VIOLATED: C13 - with both ends up and polling, a %d byte message made no progress at all '
              'for 3000 event loop rounds (%d bytes stuck in the write buffer); send() does not register WRITE '
              'interest after a partial send' % (len(big), left1))
        sys.exit(1)
    print('ok')
    sys.exit(0)


if __name__ == '__main__':
    main()
