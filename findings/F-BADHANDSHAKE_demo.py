#!/usr/bin/env python3
"""
finding3 - C14 / C13: the handshake of an incoming connection lets an exception escape the event loop.

Real SyncObj nodes, real TCPTransport over 127.0.0.1, manual ticks, virtual clock.
A healthy 3-node cluster. A non-member opens a TCP connection to node B and sends ONE well-formed
frame (4-byte length + zlib(pickle(msg))) whose payload is not one of the expected first messages:

   ['no_such_command']   a list that is not a registered utility command (e.g. an admin tool of
                         another version)         -> TypeError: unhashable type: 'list'
   []                    an empty list            -> IndexError: list index out of range
   {'type': 'x'}         anything unhashable      -> TypeError: unhashable type: 'dict'

The property demands that an unknown peer is disconnected. Instead the exception propagates from
TCPTransport._onIncomingMessageReceived through TcpConnection.__processConnection and Poller.poll
out of SyncObj.doTick() / _onTick(): the rest of the tick (all other sockets that were ready in that
poll round) is skipped, an application that drives doTick() itself gets an exception from a peer that
is not even a cluster member, and the offending connection is NOT closed (it stays in
_unknownConnections and can repeat this for ever).
"""
import os
import sys
import socket

sys.path.insert(0, os.path.dirname(os.path.abspath(__file__)))

import pysyncobj.syncobj as so
import pysyncobj.transport as tr
import pysyncobj.tcp_connection as tc
from pysyncobj import SyncObj, SyncObjConf, replicated


class Clock(object):
    now = 1000.0


def _clock():
    return Clock.now


so.monotonicTime = _clock
tr.monotonicTime = _clock
tc.monotonicTime = _clock


def freePorts(n):
    socks, ports = [], []
    for _ in range(n):
        s = socket.socket()
        s.bind(('127.0.0.1', 0))
        socks.append(s)
        ports.append(s.getsockname()[1])
    for s in socks:
        s.close()
    return ports


class Counter(SyncObj):
    def __init__(self, selfAddr, others, conf):
        super(Counter, self).__init__(selfAddr, others, conf)
        self.value = 0

    @replicated
    def incr(self):
        self.value += 1
        return self.value


import zlib
import struct
import pickle


def frame(msg):
    data = zlib.compress(pickle.dumps(msg, 2), 3)
    return struct.pack('i', len(data)) + data


def main():
    Clock.now = 1000.0
    addrs = sorted('127.0.0.1:%d' % p for p in freePorts(3))
    names = dict(zip(addrs, 'ABC'))
    timeouts = {'A': 0.5, 'B': 1.0, 'C': 1.5}
    nodes = {}
    for addr in addrs:
        t = timeouts[names[addr]]
        conf = SyncObjConf(autoTick=False, raftMinTimeout=t, raftMaxTimeout=t + 0.001,
                           connectionTimeout=3.5, appendEntriesPeriod=0.1)
        nodes[names[addr]] = Counter(addr, [a for a in addrs if a != addr], conf)
    A, B, C = nodes['A'], nodes['B'], nodes['C']
    live = [A, B, C]
    escaped = []

    def run(duration, step=0.05):
        end = Clock.now + duration
        while Clock.now < end:
            Clock.now += step
            for _ in range(2):
                for o in live:
                    try:
                        o.doTick(0.0)
                    except Exception as e:
                        escaped.append((Clock.now, [n for n in nodes if nodes[n] is o][0], repr(e)))

    run(3.0)
    assert A._isLeader() and not escaped, 'setup'
    A.incr()
    run(1.0)
    assert A.value == B.value == C.value == 1 and not escaped, 'setup: replication works'

    bAddr = [a for a in addrs if names[a] == 'B'][0]
    host, port = bAddr.rsplit(':', 1)
    results = []
    for payload in (['no_such_command'], [], {'type': 'x'}):
        before = len(escaped)
        s = socket.create_connection((host, int(port)))
        s.sendall(frame(payload))
        run(1.0)
        s.setblocking(False)
        try:
            closedByB = (s.recv(1) == b'')
        except (BlockingIOError, socket.error):
            closedByB = False   # nothing to read and no EOF: B still holds the connection open
        results.append((payload, escaped[before:], closedByB))
        s.close()
        run(0.5)

    # control: a hashable unknown first message is handled the way the property wants
    before = len(escaped)
    s = socket.create_connection((host, int(port)))
    s.sendall(frame('10.9.8.7:1234'))
    run(1.0)
    s.setblocking(False)
    try:
        controlClosed = (s.recv(1) == b'')
    except (BlockingIOError, socket.error):
        controlClosed = False
    assert controlClosed and len(escaped) == before, 'control: unknown address string -> disconnect, no exception'
    s.close()

    A.incr()
    run(1.0)
    for o in live:
        o._doDestroy()

    bad = False
    for payload, exc, closedByB in results:
        print('first message %-22r -> exceptions escaping doTick(): %s ; connection closed by B: %s' % (
            payload, [e[2] for e in exc] or 'none', closedByB))
        if exc or not closedByB:
            bad = True
    if bad:
        print('PROPERTY VIOLATED: C14/C13 - a first message from a non-member makes an exception escape doTick() '
              'of node B and the connection is not disconnected')
        sys.exit(1)
    print('ok')
    sys.exit(0)


if __name__ == '__main__':
    main()
