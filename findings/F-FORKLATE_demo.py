"""C09/C06: fork mode - the node's own dump child, still writing an older state, renames its file over a newer snapshot that was
received from the leader and installed meanwhile.  Real os.fork, real files.  Exit 1 when the dump file ends up older than what
the node installed."""
import gzip, io, os, pickle, sys, tempfile, time
from pysyncobj.serializer import Serializer
from pysyncobj.config import SERIALIZER_STATE


class Slow(object):
    def __getstate__(self):
        time.sleep(1.0)          # a big state takes a while to pickle
        return {'v': 'OLD'}


def main():
    d = tempfile.mkdtemp(prefix='forklate-')
    path = os.path.join(d, 'dump.bin')
    s = Serializer(path, 1 << 20, True, None, None, None)
    s.serialize((Slow(), ('e', 5, 1), ('e', 4, 1), set()), 4)                 # own compaction at position 5: child forked
    assert s.checkSerializing()[0] == SERIALIZER_STATE.SERIALIZING
    buf = io.BytesIO()
    with gzip.GzipFile(fileobj=buf, mode='wb') as g:
        pickle.dump(({'v': 'NEW'}, ('e', 9, 1), ('e', 8, 1), set()), g)       # the leader's snapshot of position 9
    assert s.setTransmissionData((buf.getvalue(), True, True)) is True        # received completely ...
    if hasattr(s, 'acceptTransmission'):
        installed = s.deserialize(incoming=True)[1][1]
        s.acceptTransmission()                                                # ... and installed by the caller
    else:
        installed = s.deserialize()[1][1]
    for _ in range(50):
        time.sleep(0.1)
        if s.checkSerializing()[0] != SERIALIZER_STATE.SERIALIZING:
            break
    stored = s.deserialize()[1][1]
    if stored < installed:
        print('PROPERTY VIOLATED: C09 the node installed the snapshot of position %d, afterwards its dump file holds position %d '
              '(the dump child renamed its older image over it): a restart now comes up behind what the node acknowledged' % (installed, stored))
        sys.exit(1)
    print('OK: dump file holds position %d' % stored)


if __name__ == '__main__':
    main()
