"""finding3.py - C18: a read-only node configured with logCompactionSplit=True stops following the cluster.

SyncObj.__tryLogCompaction (syncobj.py:1383-1386) builds the compaction time slots from
`self.__otherNodes | {self.__selfNode}` and dereferences `.id` of every element; a read-only node has selfNode None.
As soon as a compaction is due (logCompactionMinTime elapsed or logCompactionMinEntries reached) every _onTick of
the observer raises AttributeError before it reaches the tick callbacks of the transport and poller.poll():
it neither receives nor reconnects any more.

Run: python3 finding3.py      exit 1 = property violated
"""
# Deterministic in-memory harness for PySyncObj: virtual clock + FIFO links that behave like TCP
# connections (ordered, lossless while up; everything in flight is lost when the link goes down;
# a peer that is not in the local member table is refused, as TCPTransport does).
import os
import sys
import pickle

sys.path.insert(0, os.path.dirname(os.path.abspath(__file__)))

import pysyncobj.syncobj as _so
import pysyncobj.transport as _tr
import pysyncobj.tcp_connection as _tc
from pysyncobj import SyncObj, SyncObjConf, replicated, FAIL_REASON
from pysyncobj.transport import Transport
from pysyncobj.node import Node, TCPNode


class Clock(object):
    t = 1000.0


def _now():
    return Clock.t


_so.monotonicTime = _now
_tr.monotonicTime = _now
_tc.monotonicTime = _now


def advance(dt):
    Clock.t += dt


class SimTransport(Transport):
    def __init__(self, net, selfId, others):
        super(SimTransport, self).__init__(None, None, None)
        self.net = net
        self.id = selfId            # None for a read-only node
        self.known = set(others)    # ids of the voters this node accepts / talks to
        self.alive = True
        self.roPeers = {}           # voter side: name of read-only peer -> Node object

    def addNode(self, node):
        self.known.add(node.id)

    def dropNode(self, node):
        self.known.discard(node.id)
        if self.net.isUp(self.id, node.id):
            self.net.disconnect(self.id, node.id)

    def send(self, node, message):
        return self.net.send(self, node, message)

    def destroy(self):
        self.net.kill(self.id)


def mkNode(i):
    return TCPNode(i) if ':' in i else Node(i)


class Net(object):
    def __init__(self):
        self.ro = set()     # ids of read-only nodes
        self.pollDriven = set()  # ids of nodes that receive messages only inside their own poll()
        self.tr = {}        # id -> SimTransport
        self.obj = {}       # id -> SyncObj
        self.links = set()  # frozenset((a, b))
        self.q = {}         # (src, dst) -> [pickled message]
        self.trace = False

    def isUp(self, a, b):
        return frozenset((a, b)) in self.links

    def connect(self, a, b):
        """TCP connect between two voters. Refused unless each side has the other in its member table."""
        if self.isUp(a, b):
            return True
        if b in self.ro:
            a, b = b, a
        ta, tb = self.tr.get(a), self.tr.get(b)
        if ta is None or tb is None or not ta.alive or not tb.alive:
            return False
        if a in self.ro:
            # a read-only node dials a voter it knows; the voter accepts any read-only peer
            if b not in ta.known:
                return False
            self.links.add(frozenset((a, b)))
            self.q[(a, b)] = []
            self.q[(b, a)] = []
            ta._onNodeConnected(TCPNode(b))
            tb._onReadonlyNodeConnected(Node(a))
            return True
        if b not in ta.known or a not in tb.known:
            return False
        self.links.add(frozenset((a, b)))
        self.q[(a, b)] = []
        self.q[(b, a)] = []
        ta._onNodeConnected(TCPNode(b))
        tb._onNodeConnected(TCPNode(a))
        return True

    def disconnect(self, a, b):
        """Connection loss: everything in flight in both directions is lost."""
        if not self.isUp(a, b):
            return
        self.links.discard(frozenset((a, b)))
        self.q[(a, b)] = []
        self.q[(b, a)] = []
        for x, y in ((a, b), (b, a)):
            t = self.tr.get(x)
            if t is not None and t.alive:
                if y in self.ro:
                    t._onReadonlyNodeDisconnected(Node(y))
                else:
                    t._onNodeDisconnected(TCPNode(y))

    def kill(self, a):
        t = self.tr.get(a)
        if t is None:
            return
        t.alive = False
        for l in list(self.links):
            if a in l:
                (b,) = l - {a}
                self.links.discard(l)
                self.q[(a, b)] = []
                self.q[(b, a)] = []
                tb = self.tr.get(b)
                if tb is not None and tb.alive:
                    if a in self.ro:
                        tb._onReadonlyNodeDisconnected(Node(a))
                    else:
                        tb._onNodeDisconnected(TCPNode(a))

    def send(self, t, node, message):
        if not t.alive or not self.isUp(t.id, node.id):
            return False
        self.q[(t.id, node.id)].append(pickle.dumps(message))
        return True

    def pending(self, a, b):
        return len(self.q.get((a, b), []))

    def deliver(self, a, b, n=None, fromPoll=False):
        """Deliver the first n (default: all) messages in flight from a to b, in order."""
        cnt = 0
        if b in self.pollDriven and not fromPoll:
            return 0
        while self.isUp(a, b) and self.q[(a, b)] and (n is None or cnt < n):
            raw = self.q[(a, b)].pop(0)
            msg = pickle.loads(raw)
            if self.trace:
                print('   %s -> %s: %s' % (a, b, _short(msg)))
            self.tr[b]._onMessageReceived(mkNode(a), msg)
            cnt += 1
        return cnt

    def flush(self, rounds=50):
        """Deliver everything in flight (and the replies it provokes) until quiescent."""
        for _ in range(rounds):
            moved = 0
            for (a, b) in sorted(self.q.keys()):
                moved += self.deliver(a, b)
            if not moved:
                return
        raise RuntimeError('network does not become quiescent')

    def tick(self, *ids):
        for i in ids:
            if self.tr[i].alive:
                self.obj[i]._onTick(0.0)

    def run(self, steps, order, dt=0.1):
        """steps x (advance clock by dt; tick the nodes in the given order, delivering all traffic after each tick)."""
        for _ in range(steps):
            advance(dt)
            for i in order:
                self.tick(i)
                self.flush()


def _short(msg):
    if not isinstance(msg, dict):
        return repr(msg)[:80]
    m = dict(msg)
    if 'entries' in m:
        m['entries'] = [(e[1], e[2], e[0][:1]) for e in m['entries']]
    if 'serialized' in m and m['serialized'] is not None:
        m['serialized'] = ('<%d bytes>' % len(m['serialized'][0]),) + tuple(m['serialized'][1:])
    return m


def members(obj):
    s = set(n.id for n in obj.otherNodes)
    if obj.selfNode is not None:
        s.add(obj.selfNode.id)
    return s


def raftlog(obj):
    return [(e[1], e[2], e[0]) for e in obj._SyncObj__raftLog[:]]


# ----------------------------------------------------------------------------------------------------------
# Scenario
# ----------------------------------------------------------------------------------------------------------

class KV(SyncObj):
    def __init__(self, net, name, me, others, split):
        # the same configuration file for every process of the cluster, voters and observers alike
        conf = SyncObjConf(autoTick=False, dynamicMembershipChange=True,
                           logCompactionSplit=split, logCompactionMinTime=10, logCompactionMinEntries=10 ** 6)
        t = SimTransport(net, name, others)
        net.tr[name] = t
        super(KV, self).__init__(me, others, conf=conf, transport=t)
        self.vals = []
        net.obj[name] = self

    @replicated
    def put(self, v):
        self.vals.append(v)
        return len(self.vals)


class PollDriven(object):
    """Stands in for the socket poller of one node: its incoming messages are handed over inside poll(),
    i.e. at the very end of SyncObj._onTick, exactly where TCPTransport receives them."""
    def __init__(self, net, name):
        self.net, self.name = net, name

    def poll(self, timeout):
        for (a, b) in sorted(self.net.q):
            if b == self.name:
                self.net.deliver(a, b, fromPoll=True)

    def subscribe(self, *a): pass
    def unsubscribe(self, *a): pass


def scenario(split):
    Clock.t = 1000.0
    A, B, C, R = 'a:1', 'b:1', 'c:1', 'observer'
    net = Net()
    net.ro.add(R)
    net.pollDriven.add(R)
    o = {}
    for n in (A, B, C):
        o[n] = KV(net, n, n, [x for x in (A, B, C) if x != n], split)
    o[R] = KV(net, R, None, [A, B, C], split)           # started without an own address: read-only node
    o[R]._poller = PollDriven(net, R)
    for x, y in ((A, B), (A, C), (B, C), (R, A), (R, B), (R, C)):
        assert net.connect(x, y)
    tickErrors = []

    def tickAll():
        for n in (A, B, C, R):
            try:
                net.tick(n)
            except Exception as e:      # what _autoTickThread does: log it and go on ticking
                tickErrors.append((n, Clock.t - 1000.0, repr(e)))
            net.flush()

    advance(2.0)
    net.tick(A); net.flush()
    assert o[A]._isLeader()
    results = {}
    k = 0
    for step in range(300):             # 30 s of virtual time, one command per second through the leader
        advance(0.1)
        if step % 10 == 0:
            o[A].put(k, callback=lambda res, err, k=k: results.__setitem__(k, err))
            k += 1
        if step == 250:                 # one command through the observer
            o[R].put('via-observer', callback=lambda res, err: results.__setitem__('via-observer', err))
        tickAll()
    return o, results, tickErrors, (A, B, C, R)


violations = []
o, results, errs, (A, B, C, R) = scenario(split=False)
print('control (logCompactionSplit=False): voters %d values, observer %d values, observer callback %r, tick errors %d'
      % (len(o[A].vals), len(o[R].vals), results.get('via-observer'), len(errs)))
assert o[A].vals == o[B].vals == o[C].vals == o[R].vals and results.get('via-observer') == FAIL_REASON.SUCCESS and not errs

o, results, errs, (A, B, C, R) = scenario(split=True)
print('logCompactionSplit=True:            voters %d values, observer %d values, observer callback %r, tick errors %d'
      % (len(o[A].vals), len(o[R].vals), results.get('via-observer'), len(errs)))
if errs:
    print('first failing tick: node %s at t=%.1fs: %s' % errs[0])
assert o[A].vals == o[B].vals == o[C].vals
if o[R].vals != o[A].vals:
    violations.append('C18 the read-only node stopped following: it holds %d of the %d values the voters applied '
                      '(applied index %d vs %d), every tick since t=%.1fs raised %s'
                      % (len(o[R].vals), len(o[A].vals), o[R].raftLastApplied, o[A].raftLastApplied, errs[0][1], errs[0][2]))
if results.get('via-observer') != FAIL_REASON.SUCCESS and 'via-observer' in o[A].vals:
    violations.append('C18 the command submitted through the read-only node was applied by the voters but its callback '
                      'was never called (result %r)' % (results.get('via-observer'),))

for v in violations:
    print('PROPERTY VIOLATED: ' + v)
sys.exit(1 if violations else 0)
