#!/usr/bin/env python3
"""Deterministic in-memory harness for PySyncObj (virtual clock, explicit message delivery)."""
import os, sys, random, pickle as _pickle
sys.path.insert(0, os.path.dirname(os.path.abspath(__file__)))
import pysyncobj.syncobj as so
from pysyncobj import SyncObj, SyncObjConf, replicated, FAIL_REASON
from pysyncobj.transport import Transport
from pysyncobj.node import Node


class Clock(object):
    def __init__(self):
        self.t = 1000.0
        self.drift = 0.0

    def __call__(self):
        self.t += self.drift
        return self.t


CLOCK = Clock()
so.monotonicTime = CLOCK


class Net(object):
    def __init__(self):
        self.tr = {}      # id -> SimTransport
        self.up = set()   # frozenset({a, b})
        self.q = {}       # (src, dst) -> list of pickled messages (FIFO)
        self.trace = False

    def connected(self, a, b):
        return frozenset((a, b)) in self.up

    def connect(self, a, b):
        k = frozenset((a, b))
        if k in self.up:
            return
        self.up.add(k)
        self.q[(a, b)] = []
        self.q[(b, a)] = []
        self.tr[a]._peerConnected(b)
        self.tr[b]._peerConnected(a)

    def disconnect(self, a, b):
        k = frozenset((a, b))
        if k not in self.up:
            return
        self.up.discard(k)
        # everything in flight is lost together with the connection
        self.q[(a, b)] = []
        self.q[(b, a)] = []
        self.tr[a]._peerDisconnected(b)
        self.tr[b]._peerDisconnected(a)

    def send(self, a, b, msg):
        if not self.connected(a, b):
            return False
        self.q[(a, b)].append(_pickle.dumps(msg))
        return True

    def pending(self, a, b):
        return len(self.q.get((a, b), []))

    def peek(self, a, b, i=0):
        return _pickle.loads(self.q[(a, b)][i])

    def deliver(self, a, b, n=1):
        """deliver the n oldest messages a -> b (all if n is None)"""
        cnt = 0
        while self.q.get((a, b)) and (n is None or cnt < n):
            raw = self.q[(a, b)].pop(0)
            msg = _pickle.loads(raw)
            if self.trace:
                print('   %s -> %s : %s' % (a, b, brief(msg)))
            self.tr[b]._recv(a, msg)
            cnt += 1
        return cnt

    def deliverAll(self, exclude=(), maxRounds=50):
        """deliver until quiet; exclude = set of (src, dst) directions that are held back"""
        for _ in range(maxRounds):
            any_ = False
            for (a, b) in sorted(self.q):
                if (a, b) in exclude:
                    continue
                if self.q[(a, b)]:
                    self.deliver(a, b, None)
                    any_ = True
            if not any_:
                return


def brief(msg):
    m = dict(msg)
    if 'entries' in m:
        m['entries'] = [(e[1], e[2]) for e in m['entries']]
    if 'data' in m:
        m['data'] = '<%d bytes>' % len(m['data'])
    if m.get('serialized') is not None:
        s = m['serialized']
        m['serialized'] = ('<%d bytes>' % len(s[0]), s[1], s[2])
    return m


class SimTransport(Transport):
    def __init__(self, net, selfId, readonly=False):
        Transport.__init__(self, None, None, None)
        self.net = net
        self.id = selfId
        self.readonly = readonly
        self.peerReadonly = {}
        net.tr[selfId] = self

    def _peerConnected(self, peer):
        if self.net.tr[peer].readonly:
            self._onReadonlyNodeConnected(Node(peer))
        else:
            self._onNodeConnected(Node(peer))

    def _peerDisconnected(self, peer):
        if self.net.tr[peer].readonly:
            self._onReadonlyNodeDisconnected(Node(peer))
        else:
            self._onNodeDisconnected(Node(peer))

    def _recv(self, peer, msg):
        self._onMessageReceived(Node(peer), msg)

    def send(self, node, message):
        return self.net.send(self.id, node.id, message)


class Counter(SyncObj):
    def __init__(self, net, selfId, others, readonly=False, **confkw):
        kw = dict(autoTick=False, appendEntriesUseBatch=True, raftMinTimeout=1.0, raftMaxTimeout=2.0,
                  appendEntriesPeriod=0.1, leaderFallbackTimeout=5.0, logCompactionMinEntries=10 ** 9,
                  logCompactionMinTime=10 ** 9, useFork=False)
        kw.update(confkw)
        conf = SyncObjConf(**kw)
        self.nid = selfId   # set before SyncObj.__init__: not part of the replicated state
        tr = SimTransport(net, selfId, readonly)
        SyncObj.__init__(self, None if readonly else Node(selfId), [Node(o) for o in others], conf=conf, transport=tr)
        self.log = []   # replicated state: applied commands, in order

    @replicated
    def add(self, v):
        self.log.append(v)
        return len(self.log)


def priv(obj, name):
    return getattr(obj, '_SyncObj__' + name)


def logOf(obj):
    return [(e[1], e[2]) for e in priv(obj, 'raftLog')[:]]


def tickAll(objs, dt=0.0):
    CLOCK.t += dt
    for o in objs:
        o._onTick(0.0)


class ScenarioBroken(Exception):
    pass


def check(cond, what):
    """sanity check of the choreography (not the property)"""
    if not cond:
        raise ScenarioBroken(what)


def main(prop, scenario):
    import logging
    logging.disable(logging.CRITICAL)
    try:
        bad = scenario()
    except ScenarioBroken as e:
        print('scenario did not unfold as on the unmodified library (step: %s) - no violation shown' % e)
        sys.exit(0)
    if bad:
        for b in bad:
            print('PROPERTY VIOLATED: %s %s' % (prop, b))
        sys.exit(1)
    print('no violation')
    sys.exit(0)


# ---------------------------------------------------------------------------------------------------------------
# finding 3 (C05): a follower ends up with a stored snapshot that is OLDER than the head of its log; when it becomes
# leader, a lagging replica can neither be served from the log nor from the snapshot and never catches up.
#  - every delayed rejection lowers nextIndex again (min()), so the leader sends one full snapshot per rejection;
#  - a snapshot that is stale for the follower has already replaced the follower's stored snapshot
#    (Serializer.setTransmissionData) when __loadDumpFile notices that it is stale; the "renewal" requested with
#    __forceLogCompaction is skipped by __tryLogCompaction when nothing was applied since the last compaction
#    (lastAppliedEntries[0][1] == __lastSerializedEntry);
#  - __sendAppendEntries assumes that the stored snapshot ends at __raftLog[1].
# Root cause lines: syncobj.py:1015-1018 (min() on every delayed rejection -> one snapshot per rejection),
#   serializer.py:157-203 + syncobj.py:967-972, :1417 (stale snapshot replaces the stored one before it is found stale),
#   syncobj.py:1397-1400 (forced renewal skipped), syncobj.py:1262 (nextIndex = __raftLog[1] + 1 after a snapshot).
# Repair: replace the stored snapshot only after __loadDumpFile accepted it (or make the forced renewal unconditional);
#   identify the request a rejection answers (term + sequence number) so that delayed rejections are ignored.
# ---------------------------------------------------------------------------------------------------------------
def scenario():
    random.seed(3)
    net = Net()
    ids = ['n1', 'n2', 'n3']
    conf = dict(leaderFallbackTimeout=30.0, logCompactionMinTime=300, logCompactionMinEntries=5000)   # library defaults
    N = dict((i, Counter(net, i, [j for j in ids if j != i], **conf)) for i in ids)
    N['r1'] = Counter(net, 'r1', ids, readonly=True, **conf)
    allIds = ids + ['r1']
    objs = [N[i] for i in allIds]
    link, cut = net.connect, net.disconnect
    for a in ids:
        for b in ids:
            if a < b:
                link(a, b)
    for a in ids:
        link('r1', a)
    HOLD = set()

    def settle(rounds=3, dt=0.1, who=None):
        for _ in range(rounds):
            tickAll(who or objs, dt)
            net.deliverAll(exclude=HOLD)

    def stored(o):
        import gzip, io, pickle
        d = priv(o, 'serializer')._Serializer__inMemorySerializedData
        if d is None:
            return None
        return pickle.load(gzip.GzipFile(fileobj=io.BytesIO(d)))[1][1]

    def show(tag):
        print('-- ' + tag)
        for i in allIds:
            o = N[i]
            print('   %s term %d %s commit %d applied %d log %r .. %r; stored snapshot ends at %r' % (
                i, o.raftCurrentTerm, 'LEADER' if o._isLeader() else '      ', o.raftCommitIndex, o.raftLastApplied,
                logOf(o)[:2], logOf(o)[-2:], stored(o)))
    dl = lambda o: priv(o, 'raftElectionDeadline')
    # 1. n1 leader (term 1)
    CLOCK.t += 2.5
    N['n1']._onTick(0.0); net.deliverAll(); settle()
    check(N['n1']._isLeader(), 'n1 leader of term 1')
    # 2. n2 is cut off; 10 commands; the read-only node r1 is cut off; 20 more commands; n3 compacts its log
    cut('n2', 'n1'); cut('n2', 'n3'); cut('r1', 'n2')
    A = [N['n1'], N['n3'], N['r1']]
    for v in range(1, 11):
        N['n1'].add(v)
    settle(6, who=A)
    for a in ids:
        cut('r1', a)
    A = [N['n1'], N['n3']]
    for v in range(11, 31):
        N['n1'].add(v)
    settle(5, who=A)
    N['n3'].forceLogCompaction()
    settle(30, who=A)
    # 3. n2 comes back.  Its election timeout expired long ago: it asks for votes in term 2; nobody grants (short log) but
    #    n3 adopts the term and ignores n1 from now on, times out and wins term 3 (votes of n1, n2).
    link('n2', 'n3'); link('n2', 'n1')
    HOLD.add(('n2', 'n1'))
    N['n2']._onTick(0.0)
    net.deliverAll(exclude=HOLD)
    check(N['n3'].raftCurrentTerm == 2 and N['n1']._isLeader(), 'n3 adopted term 2')
    CLOCK.t = dl(N['n3']) + 0.001
    N['n3']._onTick(0.0)
    net.deliver('n3', 'n1', None); net.deliver('n3', 'n2', None)
    net.deliver('n1', 'n3', None); net.deliver('n2', 'n3', None)
    check(N['n3']._isLeader() and N['n3'].raftCurrentTerm == 3, 'n3 leader of term 3')
    #    n3 probes n2 with its heartbeats; the replies of n2 are slow, several rejections (hint: next=3) are in flight.
    #    Meanwhile clients keep the cluster busy: n3 and n1 commit 33..38.
    HOLD.clear(); HOLD.add(('n2', 'n3'))
    net.deliverAll(exclude=HOLD)
    for v in range(31, 36):
        N['n3'].add(v)
    settle(3, dt=0.11)
    pend = [net.peek('n2', 'n3', i) for i in range(net.pending('n2', 'n3'))]
    check(len(pend) >= 3 and all(m['reset'] and m['next_node_idx'] == 3 for m in pend), 'at least three rejections in flight')
    show('n3 leader, n2 far behind, %d rejections of n2 in flight' % len(pend))
    for k in range(len(pend)):
        net.deliver('n2', 'n3', 1)       # one rejection arrives -> n3 sends a complete snapshot plus 33..38
        settle(1, dt=0.11)
        settle(1, dt=0.0, who=[N['n2']])
        print('   after snapshot %d: n2 applied %d, log starts at %r, stored snapshot ends at %r' % (
            k + 1, N['n2'].raftLastApplied, logOf(N['n2'])[0], stored(N['n2'])))
    HOLD.clear()
    settle(5)
    show('n2 has caught up; its log starts at 37 but its stored snapshot ends at 32')
    check(logOf(N['n2'])[0][0] > stored(N['n2']), 'stored snapshot of n2 older than its log head')
    # 4. n3 fails; n2 is elected by n1; the read-only node reconnects.  No more faults from here on.
    for x in ('n1', 'n2', 'r1'):
        cut('n3', x)
    live = [N['n1'], N['n2'], N['r1']]
    CLOCK.t = max(CLOCK.t, dl(N['n2'])) + 0.001
    N['n2']._onTick(0.0); net.deliverAll()
    check(N['n2']._isLeader(), 'n2 leader')
    link('r1', 'n1'); link('r1', 'n2')
    snaps = [0]
    origSend = SimTransport.send

    def countingSend(self, node, message):
        if self.id == 'n2' and node.id == 'r1' and message.get('serialized') is not None and message['serialized'][1]:
            snaps[0] += 1
        return origSend(self, node, message)
    SimTransport.send = countingSend
    res = {}
    QUIET = 120.0
    for i in range(int(QUIET / 0.1)):
        settle(1, dt=0.1, who=live)
        if i == 100:
            N['n2'].add(1000, callback=lambda r, e: res.update(post=(r, e)))
    show('%d s (= %d maximal election timeouts) after the last fault' % (QUIET, QUIET / 2.0))
    print('   post-heal command: %r; complete snapshots sent n2 -> r1 meanwhile: %d' % (res, snaps[0]))
    # ---- the property (C05) ----
    bad = []
    leaders = [i for i in ('n1', 'n2') if N[i]._isLeader()]
    if len(leaders) != 1 or res.get('post', (None, None))[1] != FAIL_REASON.SUCCESS:
        bad.append('no single leader / no progress after the faults: leaders %r, post-heal command %r' % (leaders, res))
    if N['r1'].raftLastApplied != N['n2'].raftLastApplied or N['r1'].log != N['n2'].log:
        bad.append('the connected read-only replica r1 stays behind for good: applied %d (state has %d items) while the leader '
                   'n2 applied %d (%d items); n2 cannot serve 33..36 (log starts at %d, stored snapshot ends at %d) and sent '
                   '%d complete snapshots in vain' % (N['r1'].raftLastApplied, len(N['r1'].log), N['n2'].raftLastApplied,
                                                     len(N['n2'].log), logOf(N['n2'])[0][0], stored(N['n2']), snaps[0]))
    return bad


main('C05', scenario)
