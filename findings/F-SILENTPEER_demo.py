#!/usr/bin/env python3
"""
finding2 - C14: a connection whose peer went silent is never reported as disconnected unless
this node happens to send something over it.

Real SyncObj nodes, real TCPTransport over 127.0.0.1, manual ticks, virtual clock.
Cluster A (leader), B, C. At some point the process C hangs (it is simply never ticked again -
SIGSTOP, swap storm, dead-locked main thread; its kernel keeps the sockets open). From then on
nobody can exchange a message with C.

The leader A notices after connectionTimeout (3.5 s) because it keeps sending heartbeats and
TcpConnection checks the read timeout right before a send. The follower B never sends anything to
C, no poll event ever fires for that socket, and the read timeout is evaluated nowhere else:
B.isNodeConnected(C) stays True (and C counts towards B.hasQuorum / getStatus) for as long as A
stays leader - here 10 virtual minutes, in reality for ever. (Accepted sockets do not even get the
TCP keepalive option, TcpServer is created without it, so a powered-off peer is not detected by the
kernel either.)
"""
import os
import sys
import socket

sys.path.insert(0, os.path.dirname(os.path.abspath(__file__)))

import pysyncobj.syncobj as so
import pysyncobj.transport as tr
import pysyncobj.tcp_connection as tc
from pysyncobj import SyncObj, SyncObjConf, replicated


class Clock(object):
    now = 1000.0


def _clock():
    return Clock.now


so.monotonicTime = _clock
tr.monotonicTime = _clock
tc.monotonicTime = _clock


def freePorts(n):
    socks, ports = [], []
    for _ in range(n):
        s = socket.socket()
        s.bind(('127.0.0.1', 0))
        socks.append(s)
        ports.append(s.getsockname()[1])
    for s in socks:
        s.close()
    return ports


class Counter(SyncObj):
    def __init__(self, selfAddr, others, conf):
        super(Counter, self).__init__(selfAddr, others, conf)
        self.value = 0

    @replicated
    def incr(self):
        self.value += 1
        return self.value


def main():
    Clock.now = 1000.0
    addrs = sorted('127.0.0.1:%d' % p for p in freePorts(3))
    names = dict(zip(addrs, 'ABC'))
    timeouts = {'A': 0.5, 'B': 1.0, 'C': 1.5}
    nodes = {}
    for addr in addrs:
        t = timeouts[names[addr]]
        conf = SyncObjConf(autoTick=False, raftMinTimeout=t, raftMaxTimeout=t + 0.001,
                           connectionTimeout=3.5, appendEntriesPeriod=0.1)
        nodes[names[addr]] = Counter(addr, [a for a in addrs if a != addr], conf)
    A, B, C = nodes['A'], nodes['B'], nodes['C']

    def nodeObj(owner, name):
        addr = [a for a in addrs if names[a] == name][0]
        return [x for x in nodes[owner].otherNodes if x.id == addr][0]

    live = [A, B, C]

    def run(duration, step=0.05):
        end = Clock.now + duration
        while Clock.now < end:
            Clock.now += step
            for _ in range(2):
                for o in live:
                    o._onTick(0.0)

    run(5.0)
    assert A._isLeader(), 'setup: A should be the leader'
    A.incr()
    run(1.0)
    assert A.value == B.value == C.value == 1, 'setup: replication works'
    assert A.isNodeConnected(nodeObj('A', 'C')) and B.isNodeConnected(nodeObj('B', 'C'))

    # the only fault: C hangs
    live.remove(C)
    hangTime = Clock.now

    run(10.0)
    assert A._isLeader() and B._getLeader() == A.selfNode, 'A stays leader of the majority A+B'
    aSees = A.isNodeConnected(nodeObj('A', 'C'))
    print('10 s after C went silent:  A.isNodeConnected(C)=%s  B.isNodeConnected(C)=%s' % (
        aSees, B.isNodeConnected(nodeObj('B', 'C'))))
    assert not aSees, 'the leader (which sends heartbeats) does notice'

    run(600.0, step=0.1)
    bSees = B.isNodeConnected(nodeObj('B', 'C'))
    print('%d s after C went silent: A.isNodeConnected(C)=%s  B.isNodeConnected(C)=%s  (connectionTimeout is 3.5 s)' % (
        Clock.now - hangTime, A.isNodeConnected(nodeObj('A', 'C')), bSees))
    A.incr()
    run(1.0)
    assert A.value == B.value == 2 and C.value == 1, 'C really is unreachable'

    for o in (A, B, C):
        o._doDestroy()

    if bSees:
        print('PROPERTY VIOLATED: C14 - B still reports the silent node C as connected %d s after C stopped '
              'answering (connectionTimeout 3.5 s): the read timeout is only evaluated when the connection is used'
              % (Clock.now - hangTime))
        sys.exit(1)
    print('ok')
    sys.exit(0)


if __name__ == '__main__':
    main()
