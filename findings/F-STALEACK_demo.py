#!/usr/bin/env python3
"""Deterministic in-memory harness for PySyncObj (virtual clock, explicit message delivery)."""
import os, sys, random, pickle as _pickle
sys.path.insert(0, os.path.dirname(os.path.abspath(__file__)))
import pysyncobj.syncobj as so
from pysyncobj import SyncObj, SyncObjConf, replicated, FAIL_REASON
from pysyncobj.transport import Transport
from pysyncobj.node import Node


class Clock(object):
    def __init__(self):
        self.t = 1000.0
        self.drift = 0.0

    def __call__(self):
        self.t += self.drift
        return self.t


CLOCK = Clock()
so.monotonicTime = CLOCK


class Net(object):
    def __init__(self):
        self.tr = {}      # id -> SimTransport
        self.up = set()   # frozenset({a, b})
        self.q = {}       # (src, dst) -> list of pickled messages (FIFO)
        self.trace = False

    def connected(self, a, b):
        return frozenset((a, b)) in self.up

    def connect(self, a, b):
        k = frozenset((a, b))
        if k in self.up:
            return
        self.up.add(k)
        self.q[(a, b)] = []
        self.q[(b, a)] = []
        self.tr[a]._peerConnected(b)
        self.tr[b]._peerConnected(a)

    def disconnect(self, a, b):
        k = frozenset((a, b))
        if k not in self.up:
            return
        self.up.discard(k)
        # everything in flight is lost together with the connection
        self.q[(a, b)] = []
        self.q[(b, a)] = []
        self.tr[a]._peerDisconnected(b)
        self.tr[b]._peerDisconnected(a)

    def send(self, a, b, msg):
        if not self.connected(a, b):
            return False
        self.q[(a, b)].append(_pickle.dumps(msg))
        return True

    def pending(self, a, b):
        return len(self.q.get((a, b), []))

    def peek(self, a, b, i=0):
        return _pickle.loads(self.q[(a, b)][i])

    def deliver(self, a, b, n=1):
        """deliver the n oldest messages a -> b (all if n is None)"""
        cnt = 0
        while self.q.get((a, b)) and (n is None or cnt < n):
            raw = self.q[(a, b)].pop(0)
            msg = _pickle.loads(raw)
            if self.trace:
                print('   %s -> %s : %s' % (a, b, brief(msg)))
            self.tr[b]._recv(a, msg)
            cnt += 1
        return cnt

    def deliverAll(self, exclude=(), maxRounds=50):
        """deliver until quiet; exclude = set of (src, dst) directions that are held back"""
        for _ in range(maxRounds):
            any_ = False
            for (a, b) in sorted(self.q):
                if (a, b) in exclude:
                    continue
                if self.q[(a, b)]:
                    self.deliver(a, b, None)
                    any_ = True
            if not any_:
                return


def brief(msg):
    m = dict(msg)
    if 'entries' in m:
        m['entries'] = [(e[1], e[2]) for e in m['entries']]
    if 'data' in m:
        m['data'] = '<%d bytes>' % len(m['data'])
    if m.get('serialized') is not None:
        s = m['serialized']
        m['serialized'] = ('<%d bytes>' % len(s[0]), s[1], s[2])
    return m


class SimTransport(Transport):
    def __init__(self, net, selfId, readonly=False):
        Transport.__init__(self, None, None, None)
        self.net = net
        self.id = selfId
        self.readonly = readonly
        self.peerReadonly = {}
        net.tr[selfId] = self

    def _peerConnected(self, peer):
        if self.net.tr[peer].readonly:
            self._onReadonlyNodeConnected(Node(peer))
        else:
            self._onNodeConnected(Node(peer))

    def _peerDisconnected(self, peer):
        if self.net.tr[peer].readonly:
            self._onReadonlyNodeDisconnected(Node(peer))
        else:
            self._onNodeDisconnected(Node(peer))

    def _recv(self, peer, msg):
        self._onMessageReceived(Node(peer), msg)

    def send(self, node, message):
        return self.net.send(self.id, node.id, message)


class Counter(SyncObj):
    def __init__(self, net, selfId, others, readonly=False, **confkw):
        kw = dict(autoTick=False, appendEntriesUseBatch=True, raftMinTimeout=1.0, raftMaxTimeout=2.0,
                  appendEntriesPeriod=0.1, leaderFallbackTimeout=5.0, logCompactionMinEntries=10 ** 9,
                  logCompactionMinTime=10 ** 9, useFork=False)
        kw.update(confkw)
        conf = SyncObjConf(**kw)
        self.nid = selfId   # set before SyncObj.__init__: not part of the replicated state
        tr = SimTransport(net, selfId, readonly)
        SyncObj.__init__(self, None if readonly else Node(selfId), [Node(o) for o in others], conf=conf, transport=tr)
        self.log = []   # replicated state: applied commands, in order

    @replicated
    def add(self, v):
        self.log.append(v)
        return len(self.log)


def priv(obj, name):
    return getattr(obj, '_SyncObj__' + name)


def logOf(obj):
    return [(e[1], e[2]) for e in priv(obj, 'raftLog')[:]]


def tickAll(objs, dt=0.0):
    CLOCK.t += dt
    for o in objs:
        o._onTick(0.0)


class ScenarioBroken(Exception):
    pass


def check(cond, what):
    """sanity check of the choreography (not the property)"""
    if not cond:
        raise ScenarioBroken(what)


def main(prop, scenario):
    import logging
    logging.disable(logging.CRITICAL)
    try:
        bad = scenario()
    except ScenarioBroken as e:
        print('scenario did not unfold as on the unmodified library (step: %s) - no violation shown' % e)
        sys.exit(0)
    if bad:
        for b in bad:
            print('PROPERTY VIOLATED: %s %s' % (prop, b))
        sys.exit(1)
    print('no violation')
    sys.exit(0)


# ---------------------------------------------------------------------------------------------------------------
# finding 1 (C02): an acknowledgement (next_node_idx) carries no term.  A delayed acknowledgement that n2 sent to n1
# for entries of term 1 is accepted by n1 when it is leader again in term 3 and counted for *different* entries.
# n1 commits with a false majority and reports SUCCESS for commands the real majority never stores.
# Root cause: next_node_idx replies carry no term (SyncObj.__sendNextNodeIdx, syncobj.py:1038-1046) and the leader applies
#   every reply unconditionally (syncobj.py:1008-1023: success -> __raftMatchIndex[node] = next_node_idx - 1), also a
#   reply produced while it was leader of an older term.
# Repair: put the term of the answered append_entries into next_node_idx and ignore replies whose term differs from
#   __raftCurrentTerm.
# ---------------------------------------------------------------------------------------------------------------
def scenario():
    random.seed(1)
    net = Net()
    ids = ['n1', 'n2', 'n3', 'n4', 'n5']
    N = dict((i, Counter(net, i, [j for j in ids if j != i], leaderFallbackTimeout=30.0)) for i in ids)
    objs = [N[i] for i in ids]
    for a in ids:
        for b in ids:
            if a < b:
                net.connect(a, b)
    HOLD = set()   # directions (src, dst) on which messages are currently delayed (never reordered, never lost)

    def settle(rounds=3, dt=0.1, who=None):
        for _ in range(rounds):
            tickAll(who or objs, dt)
            net.deliverAll(exclude=HOLD)

    def show(tag):
        print('-- ' + tag)
        for i in ids:
            o = N[i]
            print('   %s term %d %s commit %d applied %d log %r state %r' % (
                i, o.raftCurrentTerm, 'LEADER' if o._isLeader() else '      ', o.raftCommitIndex, o.raftLastApplied, logOf(o)[4:], o.log))

    results = {}
    values = {}

    def submit(o, v):
        values[v] = None

        def cb(res, err, v=v):
            assert v not in results, 'callback called twice for %r' % v
            results[v] = (res, err)
        o.add(v, callback=cb)

    # 1. n1 becomes leader of term 1; two commands are committed everywhere
    CLOCK.t += 2.5
    N['n1']._onTick(0.0)
    net.deliverAll()
    settle()
    check(N['n1']._isLeader(), 'n1 leader of term 1')
    submit(N['n1'], 1); submit(N['n1'], 2)
    settle(5)
    # 2. n1 loses n3, n4, n5 (connections break) but still reaches n2.  It appends 100..103 (idx 5..8, term 1) and
    #    sends them to n2, which stores them and acknowledges (next_node_idx=9).  From now on the direction n2 -> n1 is
    #    slow (TCP retransmissions): the acknowledgement stays in flight.
    for x in ('n3', 'n4', 'n5'):
        net.disconnect('n1', x)
    for v in (100, 101, 102, 103):
        submit(N['n1'], v)
    N['n1']._onTick(0.0)
    CLOCK.t += 0.11
    N['n1']._onTick(0.0)
    net.deliver('n1', 'n2', None)
    HOLD.add(('n2', 'n1'))
    check(net.pending('n2', 'n1') >= 1 and net.peek('n2', 'n1')['next_node_idx'] == 9, 'ack for 5..8 in flight')
    show('n1 and n2 hold 5..8 of term 1, ack of n2 in flight')
    # 3. n3 is elected for term 2 by n4, n5 and overwrites 5..8 on n2 with its own entry 5
    CLOCK.t += 2.5
    N['n3']._onTick(0.0)
    net.deliverAll(exclude=HOLD)
    check(N['n3']._isLeader(), 'n3 leader of term 2')
    settle(4, who=[N[i] for i in ('n2', 'n3', 'n4', 'n5')])
    # 4. the connection n1 - n3 comes back: n1 follows n3, its entries 5..8 are replaced
    net.connect('n1', 'n3')
    settle(4)
    show('n3 leader of term 2, everybody has its entry 5')
    # 5. n3 fails; n1 reaches n4, n5 again and wins term 3
    for x in ('n1', 'n2', 'n4', 'n5'):
        net.disconnect('n3', x)
    net.connect('n1', 'n4'); net.connect('n1', 'n5')
    CLOCK.t += 2.5
    N['n1']._onTick(0.0)
    net.deliverAll(exclude=HOLD)
    check(N['n1']._isLeader() and N['n1'].raftCurrentTerm == 3, 'n1 leader of term 3')
    #    two new commands (idx 7, 8 of term 3); they reach only n4 so far (n2, n5 are slow)
    HOLD.add(('n1', 'n2')); HOLD.add(('n1', 'n5'))
    submit(N['n1'], 300); submit(N['n1'], 301)
    settle(3, who=[N['n1'], N['n2'], N['n4'], N['n5']])
    check(300 not in results, '300 not acknowledged while only n1, n4 have it')
    # 6. now the old acknowledgement of n2 (sent in term 1 for other entries) arrives
    net.deliver('n2', 'n1', 1)
    settle(1, who=[N['n1'], N['n2'], N['n4'], N['n5']])
    show('after the stale acknowledgement: n1 has committed 7, 8 although only n1 and n4 store them')
    print('   callbacks so far: %r' % results)
    # 7. n1 and n4 fail / are cut off; n2, n3, n5 (a majority) go on
    for a in ('n1', 'n4'):
        for b in ids:
            if a != b:
                net.disconnect(a, b)
    HOLD.clear()
    net.connect('n3', 'n2'); net.connect('n3', 'n5'); net.connect('n2', 'n5')
    maj = [N['n2'], N['n3'], N['n5']]
    for _ in range(200):
        settle(1, who=maj)
        if any(o._isLeader() and o.raftCurrentTerm > 3 for o in maj):
            break
    ldr = [o for o in maj if o._isLeader() and o.raftCurrentTerm > 3][0]
    submit(ldr, 400); submit(ldr, 401)
    settle(6, who=maj)
    # 8. everything heals, long quiet period
    for a in ids:
        for b in ids:
            if a < b:
                net.connect(a, b)
    for _ in range(300):
        settle(1)
    show('all faults over, 30 s later')
    print('   callbacks: %r' % results)
    # ---- the property (C02) ----
    majorityState = N[ldr.nid].log
    bad = []
    for v, (res, err) in sorted(results.items()):
        if err == FAIL_REASON.SUCCESS:
            holders = [i for i in ids if v in N[i].log]
            if len(holders) * 2 <= len(ids) or v not in majorityState:
                bad.append('command add(%r) was acknowledged with SUCCESS (result %r) but is applied only on %r; the '
                           'leader %s and the majority applied %r' % (v, res, holders, ldr.nid, majorityState))
    states = dict((i, N[i].log) for i in ids)
    if len(set(map(repr, states.values()))) != 1:
        bad.append('replicas differ after convergence: %r' % states)
    return bad


main('C02', scenario)
