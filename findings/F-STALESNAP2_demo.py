#!/usr/bin/env python
"""
Demonstration 2 (property C01): a follower that installs a snapshot which is OLDER than
what it has already applied must end up with   state == execution of the prefix [.. raftLastApplied].

Network-free, deterministic: three SyncObj nodes A (leader), B, C with a simulated transport,
virtual time, manual ticks and manual message delivery.

Schedule (B -> A answers are slow, everything else is fast):
  * the first append_entries A -> B is lost with a connection drop, so B rejects the next two
    batches (two 'reset' answers R1, R2 with the same low hint);
  * R1 reaches A, A re-sends, B catches up and from now on applies everything A commits
    (A + C are the majority);  R2 is still in flight;
  * A compacts its log at position 7, two more commands (positions 8, 9) are committed and
    applied by everybody;
  * the stale R2 finally reaches A: nextIndex[B] falls below A's first log entry, so A ships
    its snapshot (state as of position 7) to B, which has already applied position 9.

After every step the script checks, for every node, that
  (1) no two nodes executed different commands at the same log position, and
  (2) the node's object state equals the result of executing the cluster-wide sequence
      up to the node's raftLastApplied.
"""
import collections
import pickle
import sys

import pysyncobj.syncobj as so
from pysyncobj import SyncObj, SyncObjConf, replicated
from pysyncobj.node import Node
from pysyncobj.transport import Transport

CLOCK = [1000.0]
so.monotonicTime = lambda: CLOCK[0]

NAMES = {}          # id(obj) -> node name
APPLIED = {}        # position -> value   (cluster wide)
VIOLATIONS = []


class Obj(SyncObj):
    def __init__(self, name, others, conf, transport):
        super(Obj, self).__init__(Node(name), [Node(o) for o in others], conf,
                                  nodeClass=Node, transport=transport)
        self.history = []

    @replicated
    def add(self, value):
        pos = self.raftLastApplied + 1
        if APPLIED.setdefault(pos, value) != value:
            VIOLATIONS.append('%s executes %r at position %d, another node executed %r there' %
                              (NAMES[id(self)], value, pos, APPLIED[pos]))
        self.history.append(value)
        return len(self.history)


class SimTransport(Transport):
    def __init__(self, sim, name):
        Transport.__init__(self, None, None, None)
        self.sim, self.name = sim, name

    def send(self, node, message):
        return self.sim.send(self.name, node.id, message)


class Sim(object):
    def __init__(self, names, **confArgs):
        self.names = list(names)
        self.links = set()
        self.chan = collections.defaultdict(collections.deque)
        self.tr = {}
        self.objs = {}
        self.snapshotsTo = collections.Counter()
        for n in self.names:
            conf = SyncObjConf(autoTick=False, raftMinTimeout=10.0, raftMaxTimeout=20.0,
                               connectionTimeout=100.0, leaderFallbackTimeout=100000.0,
                               appendEntriesPeriod=0.1, **confArgs)
            self.tr[n] = SimTransport(self, n)
            self.objs[n] = Obj(n, [o for o in self.names if o != n], conf, self.tr[n])
            NAMES[id(self.objs[n])] = n

    # ---- network
    def connect(self, a, b):
        if (a, b) in self.links:
            return
        self.links.add((a, b)); self.links.add((b, a))
        self.tr[a]._onNodeConnected(Node(b))
        self.tr[b]._onNodeConnected(Node(a))
        self.check()

    def disconnect(self, a, b):
        """connection drop: everything in flight on it is lost"""
        self.links.discard((a, b)); self.links.discard((b, a))
        self.chan[(a, b)].clear(); self.chan[(b, a)].clear()
        self.tr[a]._onNodeDisconnected(Node(b))
        self.tr[b]._onNodeDisconnected(Node(a))
        self.check()

    def send(self, src, dst, message):
        if (src, dst) not in self.links:
            return False
        self.chan[(src, dst)].append(pickle.dumps(message))
        return True

    def deliver(self, src, dst, count=1):
        for _ in range(count):
            msg = pickle.loads(self.chan[(src, dst)].popleft())
            if msg.get('serialized') is not None:
                self.snapshotsTo[dst] += 1
            self.objs[dst]._SyncObj__onMessageReceived(Node(src), msg)
            self.check()

    def deliverAll(self, src, dst):
        n = 0
        while self.chan[(src, dst)]:
            self.deliver(src, dst)
            n += 1
        return n

    def pending(self, src, dst):
        return [pickle.loads(m) for m in self.chan[(src, dst)]]

    # ---- time
    def tick(self, name, dt=0.11):
        CLOCK[0] += dt
        self.objs[name]._onTick(0.0)
        self.check()

    # ---- the property
    def check(self):
        assert not VIOLATIONS, VIOLATIONS[0]
        for n in self.names:
            o = self.objs[n]
            seen = HIGH.setdefault(n, [0, 0])
            assert o.raftLastApplied >= seen[0] and o.raftCommitIndex >= seen[1], \
                'C04 violated on %s: applied/commit index moved backwards: %r -> %r' % (n, seen, [o.raftLastApplied, o.raftCommitIndex])
            seen[0], seen[1] = o.raftLastApplied, o.raftCommitIndex
            expected = [APPLIED[p] for p in sorted(APPLIED) if p <= o.raftLastApplied]
            assert o.history == expected, \
                'C01 violated on %s: raftLastApplied=%d, so its state must be %r, but it is %r' % (
                    n, o.raftLastApplied, expected, o.history)


HIGH = {}


def main():
    sim = Sim('ABC')
    A, B, C = (sim.objs[n] for n in 'ABC')
    for a, b in ('AB', 'AC', 'BC'):
        sim.connect(a, b)

    # A wins the election of term 1
    sim.tick('A', 25.0)
    sim.deliverAll('A', 'B'); sim.deliverAll('A', 'C')
    sim.deliverAll('B', 'A'); sim.deliverAll('C', 'A')
    assert A._isLeader()

    # the first append_entries (no-op, position 2) to B is lost together with the connection
    assert len(sim.pending('A', 'B')) >= 1
    sim.disconnect('A', 'B')
    sim.connect('A', 'B')
    sim.deliverAll('A', 'C'); sim.deliverAll('C', 'A')

    def roundAC():
        """A ticks, talks to C (both directions) and sends to B; answers of B are NOT delivered"""
        sim.tick('A'); sim.tick('A')
        sim.deliverAll('A', 'C'); sim.tick('C'); sim.deliverAll('C', 'A')
        sim.deliverAll('A', 'B'); sim.tick('B')

    A.add(10)                      # position 3
    roundAC()
    A.add(11)                      # position 4
    roundAC()
    rejects = [m for m in sim.pending('B', 'A') if m['type'] == 'next_node_idx' and m['reset']]
    assert len(rejects) >= 2, sim.pending('B', 'A')
    # R1 arrives, everything behind it stays in flight (FIFO, unbounded delay)
    while True:
        m = sim.pending('B', 'A')[0]
        sim.deliver('B', 'A')
        if m['type'] == 'next_node_idx' and m['reset']:
            break
    assert any(m['type'] == 'next_node_idx' and m['reset'] for m in sim.pending('B', 'A'))
    for _ in range(3):
        roundAC()
    assert B.raftLastApplied == 4 and B.history == [10, 11], (B.raftLastApplied, B.history)

    for v in (12, 13):             # positions 5, 6
        A.add(v)
    for _ in range(3):
        roundAC()
    assert A.raftLastApplied == B.raftLastApplied == C.raftLastApplied == 6

    # position 7 goes out in one message, positions 8 and 9 in the next one (commit index 6 in both)
    A.add(14); sim.tick('A'); sim.tick('A')
    A.add(15); A.add(16); sim.tick('A'); sim.tick('A')
    sim.deliverAll('A', 'B'); sim.tick('B', 0.0)
    assert B._SyncObj__raftLog[-1][1] == 9 and B.raftCommitIndex == 6, (B._SyncObj__raftLog[-1][1], B.raftCommitIndex)
    # C gets position 7 only and acknowledges it; then the A-C link breaks and takes 8, 9 with it
    while True:
        m = sim.pending('A', 'C')[0]
        sim.deliver('A', 'C')
        if any(e[1] == 7 for e in m.get('entries', [])):
            break
    sim.tick('C', 0.0); sim.deliverAll('C', 'A')
    sim.disconnect('A', 'C')
    assert C._SyncObj__raftLog[-1][1] == 7
    # A commits and applies 7 (A + C) and compacts its log before its next send round
    sim.tick('A', 0.0)
    assert A.raftCommitIndex == 7 and A.raftLastApplied == 7, (A.raftCommitIndex, A.raftLastApplied)
    A.forceLogCompaction()
    sim.tick('A', 0.0); sim.tick('A', 0.0)
    assert A._getRaftLogSize() <= 4 and A._SyncObj__raftLog[0][1] == 6, A._SyncObj__raftLog[0]

    # now the stale rejection R2 reaches the leader: nextIndex[B] falls below A's first entry -> snapshot of position 7 to B
    while True:
        m = sim.pending('B', 'A')[0]
        sim.deliver('B', 'A')
        if m['type'] == 'next_node_idx' and m['reset']:
            break
    sim.tick('A')                  # snapshot chunks (and the entries above it) are on their way to B
    # B's acknowledgements for 8 and 9 reach A: positions 8, 9 are committed, rightly (A and B hold them)
    sim.deliverAll('B', 'A')
    sim.tick('A', 0.0)
    assert A.raftCommitIndex == 9, A.raftCommitIndex
    # the snapshot reaches B; the A-B link breaks before the entries behind it arrive
    while sim.pending('A', 'B') and sim.pending('A', 'B')[0].get('serialized') is not None:
        sim.deliver('A', 'B')
    assert sim.snapshotsTo['B'] >= 1, 'scenario broken: no snapshot was shipped to B'
    sim.disconnect('A', 'B')
    holders = [n for n in 'ABC' if any(e[1] == 9 for e in sim.objs[n]._SyncObj__raftLog)]
    assert len(holders) >= 2, 'C04 violated: A reported position 9 committed, but after B received a snapshot of position 7 only %r hold it (B holds %r)' % (
        holders, [e[1] for e in B._SyncObj__raftLog])
    # A crashes; B and C form a majority and go on
    sim.connect('B', 'C')
    sim.tick('B', 25.0)
    sim.deliverAll('B', 'C'); sim.tick('C', 0.0); sim.deliverAll('C', 'B'); sim.tick('B', 0.0)
    assert B._isLeader()
    B.add(99)
    for _ in range(4):
        sim.tick('B'); sim.deliverAll('B', 'C'); sim.tick('C', 0.0); sim.deliverAll('C', 'B')
    print('OK: a committed position is always held by a majority')


if __name__ == '__main__':
    try:
        main()
    except AssertionError as e:
        print('PROPERTY VIOLATED: %s' % (e,))
        sys.exit(1)
    sys.exit(0)
