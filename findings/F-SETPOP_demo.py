#!/usr/bin/env python3
"""
finding1.py  -  C15: ReplSet.pop() is not a deterministic state-machine command.

A replica that received the set through a snapshot holds the same elements as a replica that built the set through the
command history, but in a different internal hash-table layout.  set.pop() returns "an arbitrary element", i.e. whatever
the layout yields first, so the same committed log entry removes DIFFERENT elements on different replicas: the replicas of
the battery diverge for good, and the result reported to the caller is not the result the other nodes computed.

Everything here is deterministic: in-memory transport, virtual clock, manual ticks, no faults other than one node being
disconnected for a while (it then catches up by snapshot, which is the normal PySyncObj mechanism).

exit 1 + 'PROPERTY VIOLATED: C15 ...' when the defect shows, 0 otherwise.
"""
import os
import sys
import pickle
import random
import collections

sys.path.insert(0, os.path.dirname(os.path.abspath(__file__)))

import pysyncobj.syncobj as _so
import pysyncobj.transport as _tr
from pysyncobj import SyncObj, SyncObjConf, FAIL_REASON
from pysyncobj.node import Node
from pysyncobj.transport import Transport
from pysyncobj.batteries import ReplSet


# --------------------------------------------------------------------------------------------------------------------
# deterministic harness: virtual clock + in-memory network with one FIFO queue per directed link
# --------------------------------------------------------------------------------------------------------------------
class Clock(object):
    def __init__(self):
        self.t = 1000.0

    def __call__(self):
        return self.t


CLOCK = Clock()
_so.monotonicTime = CLOCK
_tr.monotonicTime = CLOCK


class Net(object):
    """Connections are per unordered pair.  A live connection delivers in order and loses nothing; a disconnect loses
    everything in flight in both directions (TCP semantics)."""

    def __init__(self):
        self.transports = {}
        self.up = set()
        self.queues = collections.defaultdict(collections.deque)
        self.held = set()  # directed links whose messages are currently delayed

    def connect(self, a, b):
        key = frozenset((a, b))
        if key in self.up:
            return
        self.up.add(key)
        self.transports[a]._onNodeConnected(Node(b))
        self.transports[b]._onNodeConnected(Node(a))

    def disconnect(self, a, b):
        key = frozenset((a, b))
        if key not in self.up:
            return
        self.up.discard(key)
        self.queues[(a, b)].clear()
        self.queues[(b, a)].clear()
        for x, y in ((a, b), (b, a)):
            if x in self.transports:
                self.transports[x]._onNodeDisconnected(Node(y))

    def send(self, src, dst, message):
        if frozenset((src, dst)) not in self.up:
            return False
        self.queues[(src, dst)].append(pickle.dumps(message))
        return True

    def deliverLink(self, src, dst, count=None):
        q = self.queues[(src, dst)]
        n = 0
        while q and (count is None or n < count):
            msg = pickle.loads(q.popleft())
            self.transports[dst]._onMessageReceived(Node(src), msg)
            n += 1
        return n

    def deliverAll(self):
        progress = True
        while progress:
            progress = False
            for (src, dst) in sorted(self.queues):
                if (src, dst) in self.held:
                    continue
                if self.deliverLink(src, dst):
                    progress = True


class MemTransport(Transport):
    def __init__(self, net, selfId):
        super(MemTransport, self).__init__(None, None, None)
        self.net = net
        self.id = selfId
        net.transports[selfId] = self

    def send(self, node, message):
        return self.net.send(self.id, node.id, message)


def makeConf(**kw):
    args = dict(autoTick=False, raftMinTimeout=10.0, raftMaxTimeout=20.0, appendEntriesPeriod=0.5,
                connectionTimeout=40.0, leaderFallbackTimeout=100.0, commandsWaitLeader=True,
                appendEntriesUseBatch=True, logCompactionMinEntries=100000, logCompactionMinTime=1000000,
                dynamicMembershipChange=False)
    args.update(kw)
    return SyncObjConf(**args)


class Cluster(object):
    def __init__(self, ids, factory):
        self.net = Net()
        self.ids = list(ids)
        self.objs = {}
        self.factory = factory
        for i in self.ids:
            self.start(i)
        for i, a in enumerate(self.ids):
            for b in self.ids[i + 1:]:
                self.net.connect(a, b)

    def start(self, i):
        transport = MemTransport(self.net, i)
        self.objs[i] = self.factory(Node(i), [Node(j) for j in self.ids if j != i], transport)
        return self.objs[i]

    def tickAll(self, only=None):
        for i in self.ids:
            if i in self.objs and (only is None or i in only):
                self.objs[i]._onTick(0.0)

    def run(self, duration, dt=0.25, only=None):
        steps = int(round(duration / dt))
        for _ in range(steps):
            CLOCK.t += dt
            self.tickAll(only)
            self.net.deliverAll()

    def leader(self):
        leaders = [i for i in self.ids if i in self.objs and self.objs[i]._isLeader()]
        return leaders[0] if len(leaders) == 1 else None

    def electLeader(self):
        for _ in range(400):
            self.run(0.25)
            l = self.leader()
            if l is not None and all(o._getLeader() is not None and o._getLeader().id == l for o in self.objs.values()):
                self.run(2.0)
                return l
        raise RuntimeError('no leader elected')


# --------------------------------------------------------------------------------------------------------------------
# scenario
# --------------------------------------------------------------------------------------------------------------------
def main():
    random.seed(1)
    sets = {}

    def factory(selfNode, others, transport):
        sets[selfNode.id] = ReplSet()
        return SyncObj(selfNode, others, conf=makeConf(), consumers=[sets[selfNode.id]], nodeClass=Node,
                       transport=transport)

    cl = Cluster(['a', 'b', 'c'], factory)
    L = cl.electLeader()
    F, G = [i for i in cl.ids if i != L]

    # G is cut off (e.g. a network problem); the rest of the cluster goes on
    cl.net.disconnect(G, L)
    cl.net.disconnect(G, F)

    results = {}

    def cb(tag):
        def f(res, err):
            results[tag] = (res, err)
        return f

    # history: the set grows to 200 elements and shrinks to {1, 64}  (the hash table stays large)
    for i in range(200):
        sets[L].add(i)
    cl.run(3.0)
    for i in range(200):
        if i not in (1, 64):
            sets[L].discard(i)
    cl.run(3.0)
    assert sets[L].rawData() == {1, 64} and sets[F].rawData() == {1, 64}

    # leader compacts its log: G can only catch up by snapshot
    cl.objs[L].forceLogCompaction()
    cl.run(2.0)
    assert cl.objs[L]._getRaftLogSize() <= 3

    # G comes back and is brought up to date with the snapshot
    cl.net.connect(G, L)
    cl.net.connect(G, F)
    cl.run(5.0)
    for i in cl.ids:
        assert sets[i].rawData() == {1, 64}, (i, sets[i].rawData())
    assert cl.objs[G].raftLastApplied == cl.objs[L].raftLastApplied

    # all three replicas are equal now.  One replicated pop():
    sets[L].pop(callback=cb('pop'))
    cl.run(3.0)

    applied = dict((i, cl.objs[i].raftLastApplied) for i in cl.ids)
    contents = dict((i, set(sets[i].rawData())) for i in cl.ids)
    print('roles: leader=%s follower=%s caught-up-by-snapshot=%s' % (L, F, G))
    print('applied index per node      :', applied)
    print('pop() callback on the leader:', results.get('pop'))
    print('contents after the pop()    :', contents)

    assert len(set(applied.values())) == 1, 'nodes did not all apply the pop'
    assert results['pop'][1] == FAIL_REASON.SUCCESS
    if len(set(frozenset(v) for v in contents.values())) != 1:
        print('PROPERTY VIOLATED: C15 after the same committed ReplSet.pop() the replicas hold different contents '
              '(%r); the caller was told %r was removed but node %s removed %r'
              % (contents, results['pop'][0], G, ({1, 64} - contents[G])))
        return 1
    print('ok: replicas equal')
    return 0


if __name__ == '__main__':
    sys.exit(main())
