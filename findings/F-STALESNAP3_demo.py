#!/usr/bin/env python3
"""
finding2.py - installing a snapshot throws away log entries the follower has already acknowledged.

A follower that receives a complete snapshot whose last index is above its own commit index clears its
whole journal (SyncObj.__loadDumpFile(clearJournal=True)), even when its log already CONTAINS the last
entry of the snapshot and further entries behind it - entries it has stored and acknowledged and that the
leader counts (or is about to count) for the commit rule.  The fix 36ddcab only refuses snapshots that
end at or below the follower's commit index; the follower's commit index normally lags behind its log.

The leader is led to send such a snapshot by the second of two rejections of one round
(nextIndex = min(nextIndex, hint), fix 38715e3) after it has compacted its log in between.

Violates C04 (a committed entry must stay on a majority), C03 (the next leader lacks committed commands)
and C01 (different commands applied at one position).  3 voters, one term, no restart, no message loss
except what is in flight on a connection at the moment that connection breaks.

Root cause: pysyncobj/syncobj.py __loadDumpFile(clearJournal=True) (:1414-1448): the only guard is :1417
(snapshot end <= own commit index), then the journal is cleared unconditionally (:1433-1439).  Called from the
snapshot branch of __onMessageReceived (:963-973).  Trigger on the leader: :1015-1018 nextIndex = min(nextIndex, hint)
for the second rejection of one round, after the log was compacted, leads into the snapshot branch of
__sendAppendEntries (:1247-1267).
Minimal repair: when the local log holds the snapshot's last entry (same index and term) keep the entries behind it
(re-append them after the two snapshot entries) and acknowledge only up to the snapshot's last index
(checked on a scratch copy: this script then exits 0).

Exit code 1 + 'PROPERTY VIOLATED: ...' when the defect shows, 0 otherwise.
"""
import os
import sys
import pickle
import collections

sys.path.insert(0, os.path.dirname(os.path.abspath(__file__)))

import pysyncobj.syncobj as _so
from pysyncobj import SyncObj, SyncObjConf, replicated
from pysyncobj.transport import Transport
from pysyncobj.node import Node


# ----------------------------------------------------------------------------------------------------------
# deterministic harness
# ----------------------------------------------------------------------------------------------------------
class Clock(object):
    now = 1000.0


_so.monotonicTime = lambda: Clock.now


class Net(object):
    """Point to point FIFO channels.  A link is either up (both ends see it) or down; taking it down drops
    everything in flight in both directions - exactly what a TCP connection does."""

    def __init__(self):
        self.tr = {}
        self.up = set()
        self.q = collections.defaultdict(collections.deque)   # (src, dst) -> deque of (bytes, send time)
        self.maxDelay = 0.0

    def connect(self, a, b):
        k = frozenset((a, b))
        if k in self.up:
            return
        self.up.add(k)
        self.tr[a]._onNodeConnected(Node(b))
        self.tr[b]._onNodeConnected(Node(a))

    def disconnect(self, a, b):
        k = frozenset((a, b))
        if k not in self.up:
            return
        self.up.discard(k)
        self.q[(a, b)].clear()
        self.q[(b, a)].clear()
        self.tr[a]._onNodeDisconnected(Node(b))
        self.tr[b]._onNodeDisconnected(Node(a))

    def send(self, src, dst, msg):
        if frozenset((src, dst)) not in self.up:
            return False
        self.q[(src, dst)].append((pickle.dumps(msg), Clock.now))
        return True

    def pending(self, src, dst):
        return [pickle.loads(m) for m, _ in self.q[(src, dst)]]

    def deliver(self, src, dst, count=None):
        """deliver the first `count` (default: all currently queued) messages of channel src->dst, in order"""
        q = self.q[(src, dst)]
        n = len(q) if count is None else count
        done = 0
        while n > 0 and q:
            m, t = q.popleft()
            self.maxDelay = max(self.maxDelay, Clock.now - t)
            self.tr[dst]._onMessageReceived(Node(src), pickle.loads(m))
            n -= 1
            done += 1
            CHECK('deliver %s->%s' % (src, dst))
        return done


class SimTransport(Transport):
    def __init__(self, net, selfId):
        Transport.__init__(self, None, None, None)
        self.net = net
        self.selfId = selfId
        net.tr[selfId] = self

    def send(self, node, message):
        return self.net.send(self.selfId, node.id, message)


class Machine(SyncObj):
    """replicated object: an ordered list of the values written to it"""

    def __init__(self, net, selfId, allIds, **confArgs):
        # attributes created before SyncObj.__init__ are NOT part of the replicated/serialized state
        self.trace = []      # (log position, value) for every executed replicated call on this node
        self.results = []    # (value, result, error) of every callback fired on this node
        self.nid = selfId
        conf = SyncObjConf(autoTick=False, appendEntriesUseBatch=True, dynamicMembershipChange=False,
                           onStateChanged=self._stateChanged, **confArgs)
        SyncObj.__init__(self, Node(selfId), [Node(i) for i in allIds if i != selfId], conf=conf,
                         transport=SimTransport(net, selfId))
        self.values = []     # replicated state

    def _stateChanged(self, old, new):
        if new == 2:
            BECAME_LEADER(self)

    @replicated
    def put(self, v):
        self.trace.append((self.raftLastApplied + 1, v))
        self.values.append(v)
        return len(self.values)

    def submit(self, v):
        self.put(v, callback=lambda res, err, v=v: self.results.append((v, res, err)))

    # observation helpers (read only)
    def log(self):
        j = self._SyncObj__raftLog
        return [j[i] for i in range(len(j))]

    def stores(self, idx, term):
        lg = self.log()
        if idx < lg[0][1]:
            return True           # covered by this node's snapshot
        for e in lg:
            if e[1] == idx:
                return e[2] == term
        return False


NODES = {}
COMMITTED = {}        # idx -> (term, command) as first reported committed by any node
LAST = {}             # node -> (commitIndex, lastApplied)
LEADERS = {}          # term -> node id
VIOLATIONS = []


def violation(text, key=None):
    key = key or text
    if key not in VIOLATIONS:
        VIOLATIONS.append(key)
        print('PROPERTY VIOLATED: ' + text)


def BECAME_LEADER(m):
    t = m.raftCurrentTerm
    if t in LEADERS and LEADERS[t] != m.nid:
        violation('C03 two leaders in term %d: %s and %s' % (t, LEADERS[t], m.nid))
    LEADERS[t] = m.nid
    for idx, (term, cmd) in sorted(COMMITTED.items()):
        if not m.stores(idx, term):
            violation('C03 %s became leader of term %d without committed entry idx=%d term=%d' % (m.nid, t, idx, term))
            break


def CHECK(step):
    majority = len(NODES) // 2 + 1
    for nid, m in sorted(NODES.items()):
        ci, la = m.raftCommitIndex, m.raftLastApplied
        pci, pla = LAST.get(nid, (ci, la))
        if ci < pci:
            violation('C04 commit index of %s went backwards %d -> %d (%s)' % (nid, pci, ci, step))
        if la < pla:
            violation('C04 applied index of %s went backwards %d -> %d (%s)' % (nid, pla, la, step))
        LAST[nid] = (ci, la)
        if ci > pci:
            byIdx = dict((e[1], e) for e in m.log())
            for idx in range(pci + 1, ci + 1):
                e = byIdx.get(idx)
                if e is None:
                    continue
                holders = sorted(x for x, o in NODES.items() if o.stores(idx, e[2]))
                if idx not in COMMITTED:
                    COMMITTED[idx] = (e[2], e[0])
                if len(holders) < majority:
                    violation('C04 %s reports idx=%d (term %d) committed at step "%s" but only %s of %d voters store it'
                              % (nid, idx, e[2], step, holders, len(NODES)))
    # committed entries never change / never vanish from a majority
    for idx, (term, cmd) in sorted(COMMITTED.items()):
        holders = [x for x, o in NODES.items() if o.stores(idx, term)]
        if len(holders) < majority:
            violation('C04 committed entry idx=%d term=%d is stored by %s only (%s)' % (idx, term, sorted(holders), step),
                      key=('vanished', idx, tuple(sorted(holders))))
    # state machine safety
    byPos = {}
    for nid, m in sorted(NODES.items()):
        for pos, v in m.trace:
            if pos in byPos and byPos[pos][1] != v:
                violation('C01 position %d: %s applied %r but %s applied %r' % (pos, byPos[pos][0], byPos[pos][1], nid, v),
                          key=('pos', pos))
            byPos.setdefault(pos, (nid, v))
    vals = sorted((m.values for m in NODES.values()), key=len)
    for s, l in zip(vals, vals[1:]):
        if l[:len(s)] != s:
            violation('C01 object states diverged: %r vs %r' % (s, l), key='diverged')


def tick(*ids):
    for i in ids:
        NODES[i]._onTick(0.0)
        CHECK('tick %s' % i)


def advance(dt):
    Clock.now += dt


def show(title):
    print('--- ' + title)
    for nid, m in sorted(NODES.items()):
        print('   %s term=%d leader=%-5s commit=%d applied=%d log=%s values=%s' % (
            nid, m.raftCurrentTerm, m._isLeader(), m.raftCommitIndex, m.raftLastApplied,
            ['%d/t%d' % (e[1], e[2]) for e in m.log()], m.values))


# ----------------------------------------------------------------------------------------------------------
# the schedule
# ----------------------------------------------------------------------------------------------------------
def main():
    net = Net()
    ids = ['a', 'b', 'c']
    for i in ids:
        NODES[i] = Machine(net, i, ids)                     # default configuration, in-memory journal and snapshot
    net.connect('a', 'b')
    net.connect('a', 'c')
    net.connect('b', 'c')
    a, b, c = [NODES[i] for i in ids]
    PERIOD = 0.11                                           # a bit more than appendEntriesPeriod
    TIMEOUT = 1.45                                          # a bit more than raftMaxTimeout

    def exchange(leader, followers, rounds=2):
        for _ in range(rounds):
            advance(PERIOD)
            tick(leader)
            for f in followers:
                net.deliver(leader, f)
                tick(f)
                net.deliver(f, leader)
            tick(leader)

    def kinds(src, dst):
        out = []
        for m in net.pending(src, dst):
            if m['type'] == 'append_entries':
                if 'serialized' in m:
                    out.append('AE(snapshot chunk)')
                else:
                    out.append('AE(prev=%s,entries=%s,commit=%d)' % (m['prevLogIdx'], [e[1] for e in m['entries']], m['commit_index']))
            else:
                out.append('%s(next=%s,reset=%s,success=%s)' % (m['type'], m.get('next_node_idx'), m.get('reset'), m.get('success')))
        return out

    # -- phase 0: a is elected in term 1, "base" is committed everywhere (log index 3) ---------------------
    advance(TIMEOUT)
    tick('a')
    for f in 'bc':
        net.deliver('a', f)
        net.deliver(f, 'a')
    assert a._isLeader() and a.raftCurrentTerm == 1
    exchange('a', 'bc')
    a.submit('base')
    exchange('a', 'bc', rounds=3)
    assert all(m.values == ['base'] for m in NODES.values())
    show('phase 0')

    # -- phase 1: a appends x4, x5 and sends them; the connection a-b breaks with the message in flight;
    #    the link a->c is slow: from now on messages a->c are delivered late (one at a time, in order)
    a.submit('x4'); a.submit('x5')
    tick('a')
    advance(PERIOD)
    tick('a')                                # AE#1 (prev=3, [4,5]) to b and c; nextIndex[b] = nextIndex[c] = 6
    net.disconnect('a', 'b')                 # AE#1 to b is lost with the connection
    net.connect('a', 'b')                    # ... which is re-established right away

    # -- phase 2: two more rounds go out before b's first answer is back: b rejects both (it lacks 4, 5)
    a.submit('x6')
    tick('a')
    advance(PERIOD)
    tick('a')                                # AE#2 (prev=5, [6])
    net.deliver('a', 'b')                    # b: no entry 5 -> R1 = next_node_idx(next=4, reset)
    a.submit('x7')
    tick('a')
    advance(PERIOD)
    tick('a')                                # AE#3 (prev=6, [7])
    net.deliver('a', 'b')                    # b: no entry 6 -> R2 = next_node_idx(next=4, reset)
    print('   b->a in flight: %s' % kinds('b', 'a'))

    # -- phase 3: R1 arrives, a goes back to index 4 and sends 4..7 (its commit index is still 3)
    net.deliver('b', 'a', 1)                 # R1
    advance(PERIOD)
    tick('a')                                # AE#4 (prev=3, [4,5,6,7], commit=3)
    net.deliver('a', 'b')                    # b stores 4..7, commit index stays 3, R3 = next_node_idx(next=8, success)
    tick('b')
    print('   b->a in flight: %s' % kinds('b', 'a'))
    show('phase 3: b stores and has acknowledged 4..7 (acknowledgement R3 still travelling behind R2)')

    # -- phase 4: c at last receives AE#1 and acknowledges 4, 5: a commits 5, applies, compacts its log
    net.deliver('a', 'c', 1)                 # AE#1
    tick('c')
    net.deliver('c', 'a')
    a.forceLogCompaction()
    tick('a')                                # commit 5, apply, snapshot of state at index 5 taken
    tick('a')                                # log compacted: first entry is now index 4
    assert a.log()[0][1] == 4 and a.raftCommitIndex == 5
    show('phase 4: a committed 5 with c and compacted')

    # -- phase 5: R2 (the second rejection of the old round) arrives: nextIndex[b] = min(8, 4) = 4, which a has
    #    compacted away -> a sends its snapshot (last index 5) to b, then entries 6, 7 again
    net.deliver('b', 'a', 1)                 # R2
    advance(PERIOD)
    tick('a')
    print('   a->b in flight: %s' % kinds('a', 'b'))
    nSnap = len([k for k in kinds('a', 'b') if 'snapshot' in k])
    before = [e[1] for e in b.log()]
    net.deliver('a', 'b', nSnap)             # b installs the snapshot ...
    after = [e[1] for e in b.log()]
    print('   b log indices before snapshot %s, after %s, b commit index %d' % (before, after, b.raftCommitIndex))
    print('   b->a in flight: %s' % kinds('b', 'a'))
    net.deliver('b', 'a')                    # R3 (ack of 4..7, sent before the snapshot arrived) and the snapshot reply
    st = a.getStatus()
    print('   leader a: matchIndex[b]=%d, b really stores up to index %d' % (st['match_idx_server_b'], b.log()[-1][1]))
    tick('a')                                # commit rule: a + b >= 7 -> 6 and 7 "committed", applied, callbacks fire
    show('phase 5: a committed 6, 7 counting b; b has dropped them when it installed the snapshot')
    print('   callbacks fired on a: %s' % a.results)

    # -- phase 6: a is cut off (the re-sent entries 6, 7 to b and everything still travelling to c are lost with
    #    the connections); b and c are a majority and go on
    net.disconnect('a', 'b')
    net.disconnect('a', 'c')
    advance(TIMEOUT)
    tick('b')
    net.deliver('b', 'c')
    net.deliver('c', 'b')
    assert b._isLeader(), 'b should win term 2'
    exchange('b', 'c')
    b.submit('z1')
    b.submit('z2')
    exchange('b', 'c', rounds=3)
    show('phase 6: b leads term %d with c' % b.raftCurrentTerm)

    print('   max time any delivered message spent in flight: %.2f s' % net.maxDelay)
    if VIOLATIONS:
        print('%d violation(s)' % len(VIOLATIONS))
        return 1
    print('no violation observed')
    return 0


if __name__ == '__main__':
    sys.exit(main())
