#!/usr/bin/env python3
"""
finding1: ReplSet.pop() removes different elements on replicas with equal contents (C15, C01).

Fix 49d18a9 orders the elements by (type name, repr).  repr() of a frozenset lists its members in the
iteration order of that frozenset's own hash table, which is NOT a function of its value: it changes when
the frozenset goes through pickle (i.e. when a replica gets it from a snapshot instead of from the log).
frozenset([32, 3, 11]) iterates 32,3,11; its pickled copy iterates 32,11,3 (ints only: no hash seed involved).

Schedule: n1 (leader), n2 connected; n3 cut off.  add(F), add(G) commit on n1, n2.  n1 compacts its log.
n3 connects, is brought up to date by snapshot.  pop() commits on all three.  n1/n2 remove G, n3 removes F.
"""
import os, sys, random, pickle
sys.path.insert(0, os.path.dirname(os.path.abspath(__file__)))
import pysyncobj.syncobj as so
from pysyncobj import SyncObj, SyncObjConf
from pysyncobj.batteries import ReplSet
from pysyncobj.transport import Transport
from pysyncobj.node import TCPNode


class Clock(object):
    t = 1000.0


so.monotonicTime = lambda: Clock.t
random.seed(7)


class Net(object):
    def __init__(self):
        self.tr = {}      # node id -> transport
        self.up = set()   # frozenset({a, b})
        self.q = {}       # (src, dst) -> list of messages

    def connect(self, a, b):
        self.up.add(frozenset((a, b)))
        self.q[(a, b)] = []
        self.q[(b, a)] = []
        self.tr[a]._onNodeConnected(TCPNode(b))
        self.tr[b]._onNodeConnected(TCPNode(a))

    def disconnect(self, a, b):
        self.up.discard(frozenset((a, b)))
        self.q.pop((a, b), None)
        self.q.pop((b, a), None)
        self.tr[a]._onNodeDisconnected(TCPNode(b))
        self.tr[b]._onNodeDisconnected(TCPNode(a))

    def deliverAll(self):
        n = 0
        progress = True
        while progress:
            progress = False
            for key in sorted(self.q):
                while self.q.get(key):
                    msg = self.q[key].pop(0)
                    self.tr[key[1]]._onMessageReceived(TCPNode(key[0]), pickle.loads(msg))
                    progress = True
                    n += 1
        return n


class MemTransport(Transport):
    def __init__(self, net, me):
        Transport.__init__(self, None, None, None)
        self.net, self.me = net, me
        net.tr[me] = self

    def send(self, node, message):
        if frozenset((self.me, node.id)) not in self.net.up:
            return False
        self.net.q[(self.me, node.id)].append(pickle.dumps(message))
        return True


def main():
    ids = ['n1:1', 'n2:1', 'n3:1']
    net = Net()
    objs, sets = {}, {}
    for i in ids:
        conf = SyncObjConf(autoTick=False, appendEntriesUseBatch=True, dynamicMembershipChange=False,
                           logCompactionMinEntries=10 ** 9, logCompactionMinTime=10 ** 9)
        sets[i] = ReplSet()
        objs[i] = SyncObj(i, [x for x in ids if x != i], conf=conf, consumers=[sets[i]],
                          transport=MemTransport(net, i))

    def run(rounds, who=ids, dt=0.06):
        for _ in range(rounds):
            Clock.t += dt
            for i in who:
                objs[i]._onTick(0.0)
            net.deliverAll()

    net.connect('n1:1', 'n2:1')
    # n1 becomes leader: only n1 ticks until it has won
    for _ in range(200):
        Clock.t += 0.06
        objs['n1:1']._onTick(0.0)
        net.deliverAll()
        if objs['n1:1']._isLeader():
            break
    assert objs['n1:1']._isLeader()
    run(5, ['n1:1', 'n2:1'])

    F = frozenset([32, 3, 11])
    G = frozenset([32, 2])
    res = []
    sets['n1:1'].add(F, callback=lambda r, e: res.append(e))
    sets['n1:1'].add(G, callback=lambda r, e: res.append(e))
    run(10, ['n1:1', 'n2:1'])
    assert res == [0, 0], res
    assert sets['n1:1'].rawData() == sets['n2:1'].rawData() == {F, G}

    objs['n1:1'].forceLogCompaction()
    run(5, ['n1:1', 'n2:1'])

    # n3 joins late and gets the snapshot
    net.connect('n1:1', 'n3:1')
    net.connect('n2:1', 'n3:1')
    run(20, ['n1:1', 'n2:1', 'n3:1'])
    assert objs['n1:1']._isLeader()
    assert objs['n3:1'].raftLastApplied == objs['n1:1'].raftLastApplied, 'n3 did not catch up'
    assert sets['n3:1'].rawData() == {F, G}, sets['n3:1'].rawData()

    popped = []
    sets['n1:1'].pop(callback=lambda r, e: popped.append((r, e)))
    run(20, ['n1:1', 'n2:1', 'n3:1'])
    assert popped and popped[0][1] == 0, popped
    applied = set(objs[i].raftLastApplied for i in ids)
    assert len(applied) == 1, applied
    contents = dict((i, sets[i].rawData()) for i in ids)
    print('pop() returned %r to the caller; applied index %s on all nodes' % (popped[0][0], applied))
    for i in ids:
        print(i, contents[i])
    if not (contents['n1:1'] == contents['n2:1'] == contents['n3:1']):
        print('PROPERTY VIOLATED: C15 (and C01) replicas of a ReplSet differ after the same pop(): '
              'n1 holds %r, n3 (restored from snapshot) holds %r' % (contents['n1:1'], contents['n3:1']))
        sys.exit(1)
    print('ok')
    sys.exit(0)


if __name__ == '__main__':
    main()
