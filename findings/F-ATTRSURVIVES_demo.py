#!/usr/bin/env python
"""
finding3.py - installing a received snapshot on a running node does not remove object attributes
that are absent from the snapshot: the node keeps an attribute that a later (already snapshotted)
command deleted.  Its state then differs from the replay of the log up to raftLastApplied and
later commands give different results on different nodes.

PROPERTY VIOLATED: C09 (a snapshot restores exactly the state at its position) / C01.

Schedule: follower F misses some commands (its connection to the leader is down), the leader compacts,
F is brought up to date by a snapshot.  No other fault.  Exit code 1 when the defect shows, 0 otherwise.
"""
import os
import sys
import copy
import random
import shutil
import tempfile
import collections
import pickle as _pickle

sys.path.insert(0, os.path.dirname(os.path.abspath(__file__)))

import pysyncobj.syncobj as _so
from pysyncobj import SyncObj, SyncObjConf, replicated, FAIL_REASON
from pysyncobj.transport import Transport
from pysyncobj.node import TCPNode

# ----------------------------------------------------------------------------- clock
class _Clock(object):
    def __init__(self):
        self.cur = None          # SimNode that is running right now
        self.base = 1000.0

    def __call__(self):
        if self.cur is None:
            return self.base
        self.cur.now += 1e-7     # time never stands still (loops that wait for the clock terminate)
        return self.cur.now

CLOCK = _Clock()
_so.monotonicTime = CLOCK
import pysyncobj.transport as _tr
_tr.monotonicTime = CLOCK


# ----------------------------------------------------------------------------- network
class Net(object):
    def __init__(self):
        self.nodes = {}                                  # addr -> SimNode (alive ones)
        self.up = set()                                  # frozenset((a, b)) of connected pairs
        self.q = collections.defaultdict(collections.deque)   # (src, dst) -> messages in flight

    def connect(self, a, b):
        """TCP connect between two live processes; refused unless both know each other."""
        na, nb = self.nodes[a], self.nodes[b]
        if b not in na.tr.known or a not in nb.tr.known:
            return False
        key = frozenset((a, b))
        if key in self.up:
            return True
        self.up.add(key)
        self.q[(a, b)].clear()
        self.q[(b, a)].clear()
        na.run(lambda: na.tr._onNodeConnected(TCPNode(b)))
        nb.run(lambda: nb.tr._onNodeConnected(TCPNode(a)))
        return True

    def disconnect(self, a, b, notify=True):
        """The connection a<->b breaks: everything in flight is lost, both ends notice."""
        key = frozenset((a, b))
        if key not in self.up:
            return
        self.up.discard(key)
        self.q[(a, b)].clear()
        self.q[(b, a)].clear()
        if notify:
            for x, y in ((a, b), (b, a)):
                n = self.nodes.get(x)
                if n is not None:
                    n.run(lambda n=n, y=y: n.tr._onNodeDisconnected(TCPNode(y)))

    def deliver(self, src, dst, count=None):
        """Deliver (in order) the messages in flight from src to dst."""
        q = self.q[(src, dst)]
        n = 0
        while q and (count is None or n < count):
            msg = q.popleft()
            node = self.nodes[dst]
            node.run(lambda: node.tr._onMessageReceived(TCPNode(src), msg))
            n += 1
        return n


class SimTransport(Transport):
    def __init__(self, net, selfAddr, others):
        Transport.__init__(self, None, None, None)
        self.net = net
        self.addr = selfAddr
        self.known = set(others)

    def addNode(self, node):
        self.known.add(node.address)

    def dropNode(self, node):
        # like TCPTransport.dropNode: the connection is closed, the owner is told, no reconnect
        addr = node.address
        key = frozenset((self.addr, addr))
        if key in self.net.up:
            self.net.up.discard(key)
            self.net.q[(self.addr, addr)].clear()
            self.net.q[(addr, self.addr)].clear()
            self._onNodeDisconnected(node)
            other = self.net.nodes.get(addr)
            if other is not None:
                prev = CLOCK.cur
                other.run(lambda: other.tr._onNodeDisconnected(TCPNode(self.addr)))
                CLOCK.cur = prev
        self.known.discard(addr)

    def send(self, node, message):
        addr = node.address
        if frozenset((self.addr, addr)) not in self.net.up:
            return False
        self.net.q[(self.addr, addr)].append(_pickle.loads(_pickle.dumps(message)))
        return True



class Obj(SyncObj):
    def __init__(self, selfAddr, others, conf, transport):
        super(Obj, self).__init__(selfAddr, others, conf=conf, transport=transport)
        self.log = []

    @replicated
    def begin(self, owner):
        self.session = owner                   # attribute exists only while a session is open
        self.log.append('begin %s' % owner)

    @replicated
    def end(self):
        if hasattr(self, 'session'):
            del self.session
        self.log.append('end')

    @replicated
    def tryBegin(self, owner):
        if hasattr(self, 'session'):
            self.log.append('%s refused, held by %s' % (owner, self.session))
            return False
        self.session = owner
        self.log.append('begin %s' % owner)
        return True

    def state(self):
        return (getattr(self, 'session', None), list(self.log))


class SimNode(object):
    def __init__(self, net, addr, others, now=1000.0):
        self.net, self.addr, self.now = net, addr, now
        self.tr = SimTransport(net, addr, others)
        conf = SyncObjConf(autoTick=False, logCompactionMinEntries=10 ** 9, logCompactionMinTime=10 ** 9,
                           leaderFallbackTimeout=10 ** 6)
        self.run(lambda: setattr(self, 'obj', Obj(addr, others, conf, self.tr)))
        net.nodes[addr] = self

    def run(self, fn):
        prev = CLOCK.cur
        CLOCK.cur = self
        try:
            return fn()
        finally:
            CLOCK.cur = prev

    def tick(self, dt=0.0):
        self.now += dt
        self.run(lambda: self.obj._onTick(0.0))


def main():
    random.seed(1)
    net = Net()
    A, B, F = 'a:1', 'b:1', 'f:1'
    nA, nB, nF = SimNode(net, A, [B, F]), SimNode(net, B, [A, F]), SimNode(net, F, [A, B])
    for x, y in ((A, B), (A, F), (B, F)):
        assert net.connect(x, y)

    def pump(names, rounds=8, dt=0.11):
        for _ in range(rounds):
            for s in names:
                for d in names:
                    if s != d:
                        net.deliver(s, d)
            for a in names:
                net.nodes[a].tick(dt)

    nA.tick(2.0)
    pump([A, B, F])
    assert nA.obj._isLeader()
    nA.run(lambda: nA.obj.begin('alice'))
    pump([A, B, F])
    assert nF.obj.state() == nA.obj.state() == ('alice', ['begin alice'])
    net.disconnect(A, F)
    net.disconnect(B, F)
    nA.run(lambda: nA.obj.end())
    nA.run(lambda: nA.obj.tryBegin('carol'))
    nA.run(lambda: nA.obj.end())
    pump([A, B])
    nA.obj.forceLogCompaction()
    nA.tick(0.0)
    nA.tick(0.0)
    assert nA.obj._SyncObj__raftLog[0][1] == nA.obj.raftLastApplied - 1     # compacted
    assert net.connect(A, F) and net.connect(B, F)
    pump([A, B, F], rounds=12)
    assert nF.obj.raftLastApplied == nA.obj.raftLastApplied
    assert nF.obj._SyncObj__raftLog[0][1] == nA.obj._SyncObj__raftLog[0][1] > 3      # F was served by the snapshot
    print('after the snapshot install: applied index %d on both; A: %s   F: %s'
          % (nA.obj.raftLastApplied, nA.obj.state(), nF.obj.state()))
    rc = 0
    if nF.obj.state() != nA.obj.state():
        print('PROPERTY VIOLATED: C09 - state of F after installing the snapshot of position %d is %s, replaying the '
              'log up to that position gives %s' % (nF.obj.raftLastApplied, nF.obj.state(), nA.obj.state()))
        rc = 1
    res = {}
    nA.run(lambda: nA.obj.tryBegin('bob', callback=lambda r, e: res.__setitem__('bob', (r, e))))
    pump([A, B, F], rounds=8)
    print('after tryBegin(bob) [callback %s]: A: %s   F: %s' % (res.get('bob'), nA.obj.state(), nF.obj.state()))
    if nF.obj.raftLastApplied == nA.obj.raftLastApplied and nF.obj.state() != nA.obj.state():
        print('PROPERTY VIOLATED: C01 - same applied index %d, different object states' % nA.obj.raftLastApplied)
        rc = 1
    if rc == 0:
        print('no violation')
    return rc


if __name__ == '__main__':
    sys.exit(main())
