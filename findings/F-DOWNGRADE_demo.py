#!/usr/bin/env python3
"""
finding3.py  -  C17: a request to enable a LOWER code version is accepted and reported SUCCESS; the whole cluster is
                downgraded.

setCodeVersion() validates 'newVersion >= enabled version' only on the submitting node and only at submission time.
Nothing is checked when the VERSION entry is applied.  Two requests that are in flight together (two operators / two
nodes of a rolling upgrade script, or simply a retry) both pass the check against the old enabled version; they are
applied in log order, so 'VERSION 2' followed by 'VERSION 1' switches every node 0 -> 2 -> 1 and both callbacks report
SUCCESS.  Calls made afterwards run the version-1 implementation although version 2 had been enabled cluster-wide.

No faults at all are needed: a healthy 3-node cluster, two setCodeVersion() calls on two different nodes within the
same append_entries period.

exit 1 + 'PROPERTY VIOLATED: C17 ...' when the defect shows, 0 otherwise.
"""
import os
import sys
import pickle
import random
import collections

sys.path.insert(0, os.path.dirname(os.path.abspath(__file__)))

import pysyncobj.syncobj as _so
import pysyncobj.transport as _tr
from pysyncobj import SyncObj, SyncObjConf, FAIL_REASON
from pysyncobj.node import Node
from pysyncobj.transport import Transport


# --------------------------------------------------------------------------------------------------------------------
# deterministic harness: virtual clock + in-memory network with one FIFO queue per directed link
# --------------------------------------------------------------------------------------------------------------------
class Clock(object):
    def __init__(self):
        self.t = 1000.0

    def __call__(self):
        return self.t


CLOCK = Clock()
_so.monotonicTime = CLOCK
_tr.monotonicTime = CLOCK


class Net(object):
    """Connections are per unordered pair.  A live connection delivers in order and loses nothing; a disconnect loses
    everything in flight in both directions (TCP semantics)."""

    def __init__(self):
        self.transports = {}
        self.up = set()
        self.queues = collections.defaultdict(collections.deque)
        self.held = set()  # directed links whose messages are currently delayed

    def connect(self, a, b):
        key = frozenset((a, b))
        if key in self.up:
            return
        self.up.add(key)
        self.transports[a]._onNodeConnected(Node(b))
        self.transports[b]._onNodeConnected(Node(a))

    def disconnect(self, a, b):
        key = frozenset((a, b))
        if key not in self.up:
            return
        self.up.discard(key)
        self.queues[(a, b)].clear()
        self.queues[(b, a)].clear()
        for x, y in ((a, b), (b, a)):
            if x in self.transports:
                self.transports[x]._onNodeDisconnected(Node(y))

    def send(self, src, dst, message):
        if frozenset((src, dst)) not in self.up:
            return False
        self.queues[(src, dst)].append(pickle.dumps(message))
        return True

    def deliverLink(self, src, dst, count=None):
        q = self.queues[(src, dst)]
        n = 0
        while q and (count is None or n < count):
            msg = pickle.loads(q.popleft())
            self.transports[dst]._onMessageReceived(Node(src), msg)
            n += 1
        return n

    def deliverAll(self):
        progress = True
        while progress:
            progress = False
            for (src, dst) in sorted(self.queues):
                if (src, dst) in self.held:
                    continue
                if self.deliverLink(src, dst):
                    progress = True


class MemTransport(Transport):
    def __init__(self, net, selfId):
        super(MemTransport, self).__init__(None, None, None)
        self.net = net
        self.id = selfId
        net.transports[selfId] = self

    def send(self, node, message):
        return self.net.send(self.id, node.id, message)


def makeConf(**kw):
    args = dict(autoTick=False, raftMinTimeout=10.0, raftMaxTimeout=20.0, appendEntriesPeriod=0.5,
                connectionTimeout=40.0, leaderFallbackTimeout=100.0, commandsWaitLeader=True,
                appendEntriesUseBatch=True, logCompactionMinEntries=100000, logCompactionMinTime=1000000,
                dynamicMembershipChange=False)
    args.update(kw)
    return SyncObjConf(**args)


class Cluster(object):
    def __init__(self, ids, factory):
        self.net = Net()
        self.ids = list(ids)
        self.objs = {}
        self.factory = factory
        for i in self.ids:
            self.start(i)
        for i, a in enumerate(self.ids):
            for b in self.ids[i + 1:]:
                self.net.connect(a, b)

    def start(self, i):
        transport = MemTransport(self.net, i)
        self.objs[i] = self.factory(Node(i), [Node(j) for j in self.ids if j != i], transport)
        return self.objs[i]

    def tickAll(self, only=None):
        for i in self.ids:
            if i in self.objs and (only is None or i in only):
                self.objs[i]._onTick(0.0)

    def run(self, duration, dt=0.25, only=None):
        steps = int(round(duration / dt))
        for _ in range(steps):
            CLOCK.t += dt
            self.tickAll(only)
            self.net.deliverAll()

    def leader(self):
        leaders = [i for i in self.ids if i in self.objs and self.objs[i]._isLeader()]
        return leaders[0] if len(leaders) == 1 else None

    def electLeader(self):
        for _ in range(400):
            self.run(0.25)
            l = self.leader()
            if l is not None and all(o._getLeader() is not None and o._getLeader().id == l for o in self.objs.values()):
                self.run(2.0)
                return l
        raise RuntimeError('no leader elected')


# --------------------------------------------------------------------------------------------------------------------
# scenario
# --------------------------------------------------------------------------------------------------------------------
from pysyncobj import replicated


class Journal(SyncObj):
    def __init__(self, selfNode, others, conf, transport):
        super(Journal, self).__init__(selfNode, others, conf=conf, nodeClass=Node, transport=transport)
        self.items = []

    @replicated
    def put(self, x):
        self.items.append(('v0', x))

    @replicated(ver=1)
    def put(self, x):
        self.items.append(('v1', x))

    @replicated(ver=2)
    def put(self, x):
        self.items.append(('v2', x))


def main():
    random.seed(1)
    switches = collections.defaultdict(list)

    def factory(selfNode, others, transport):
        def onChanged(oldVer, newVer):
            switches[selfNode.id].append((oldVer, newVer))
        return Journal(selfNode, others, makeConf(onCodeVersionChanged=onChanged), transport)

    cl = Cluster(['a', 'b', 'c'], factory)
    L = cl.electLeader()
    F, G = [i for i in cl.ids if i != L]
    res = {}

    def cb(tag):
        def f(r, e):
            res[tag] = e
        return f

    # two requests at the same moment, on two nodes.  Both are legal when they are made (enabled version is 0).
    cl.objs[L].setCodeVersion(2, callback=cb('set2'))
    cl.objs[F].setCodeVersion(1, callback=cb('set1'))
    cl.run(3.0)

    # the property also says the submitting node rejects a lower version once it knows better - it does:
    try:
        cl.objs[L].setCodeVersion(0)
        rejectedLocally = False
    except Exception:
        rejectedLocally = True

    cl.objs[G].put('x', callback=cb('put'))
    cl.run(3.0)

    versions = dict((i, cl.objs[i].getCodeVersion()) for i in cl.ids)
    ran = dict((i, [impl for impl, x in cl.objs[i].items if x == 'x']) for i in cl.ids)
    print('callbacks (0 = SUCCESS)       :', res)
    print('version switches per node     :', dict(switches))
    print('getCodeVersion() per node     :', versions)
    print('put("x") ran as               :', ran)
    print('late lower request rejected at submission:', rejectedLocally)

    downgrades = [(i, s) for i in cl.ids for s in switches[i] if s[1] < s[0]]
    if downgrades:
        print('PROPERTY VIOLATED: C17 a request for a lower code version was not rejected: switches %r, callback of '
              'setCodeVersion(1) = %r (0 is SUCCESS), final getCodeVersion() = %r, a later call ran as %r'
              % (downgrades, res.get('set1'), versions, ran))
        return 1
    print('ok')
    return 0


if __name__ == '__main__':
    sys.exit(main())
