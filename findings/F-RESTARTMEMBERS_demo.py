#!/usr/bin/env python
"""
finding1.py - a journaled node that restarts forgets the membership entries of its log
(above the dump position / above its commit index) and decides with the OLD member set.

PROPERTY VIOLATED: C10 (member set == set defined by the membership commands in the log),
and through it C01 / C04 (two nodes apply different commands at one log position, both
callbacks say SUCCESS).

Deterministic: real SyncObj objects, in-memory transport, one controllable clock per node,
autoTick=False.  Only realistic events: delays, connection loss (everything in flight on that
connection is lost), one kill + restart of a node that has a journal file AND a dump file.
Exit code 1 when the defect shows, 0 otherwise.
"""
import os
import sys
import copy
import random
import shutil
import tempfile
import collections
import pickle as _pickle

sys.path.insert(0, os.path.dirname(os.path.abspath(__file__)))

import pysyncobj.syncobj as _so
from pysyncobj import SyncObj, SyncObjConf, replicated, FAIL_REASON
from pysyncobj.transport import Transport
from pysyncobj.node import TCPNode

# ----------------------------------------------------------------------------- clock
class _Clock(object):
    def __init__(self):
        self.cur = None          # SimNode that is running right now
        self.base = 1000.0

    def __call__(self):
        if self.cur is None:
            return self.base
        self.cur.now += 1e-7     # time never stands still (loops that wait for the clock terminate)
        return self.cur.now

CLOCK = _Clock()
_so.monotonicTime = CLOCK
import pysyncobj.transport as _tr
_tr.monotonicTime = CLOCK


# ----------------------------------------------------------------------------- network
class Net(object):
    def __init__(self):
        self.nodes = {}                                  # addr -> SimNode (alive ones)
        self.up = set()                                  # frozenset((a, b)) of connected pairs
        self.q = collections.defaultdict(collections.deque)   # (src, dst) -> messages in flight

    def connect(self, a, b):
        """TCP connect between two live processes; refused unless both know each other."""
        na, nb = self.nodes[a], self.nodes[b]
        if b not in na.tr.known or a not in nb.tr.known:
            return False
        key = frozenset((a, b))
        if key in self.up:
            return True
        self.up.add(key)
        self.q[(a, b)].clear()
        self.q[(b, a)].clear()
        na.run(lambda: na.tr._onNodeConnected(TCPNode(b)))
        nb.run(lambda: nb.tr._onNodeConnected(TCPNode(a)))
        return True

    def disconnect(self, a, b, notify=True):
        """The connection a<->b breaks: everything in flight is lost, both ends notice."""
        key = frozenset((a, b))
        if key not in self.up:
            return
        self.up.discard(key)
        self.q[(a, b)].clear()
        self.q[(b, a)].clear()
        if notify:
            for x, y in ((a, b), (b, a)):
                n = self.nodes.get(x)
                if n is not None:
                    n.run(lambda n=n, y=y: n.tr._onNodeDisconnected(TCPNode(y)))

    def deliver(self, src, dst, count=None):
        """Deliver (in order) the messages in flight from src to dst."""
        q = self.q[(src, dst)]
        n = 0
        while q and (count is None or n < count):
            msg = q.popleft()
            node = self.nodes[dst]
            node.run(lambda: node.tr._onMessageReceived(TCPNode(src), msg))
            n += 1
        return n


class SimTransport(Transport):
    def __init__(self, net, selfAddr, others):
        Transport.__init__(self, None, None, None)
        self.net = net
        self.addr = selfAddr
        self.known = set(others)

    def addNode(self, node):
        self.known.add(node.address)

    def dropNode(self, node):
        # like TCPTransport.dropNode: the connection is closed, the owner is told, no reconnect
        addr = node.address
        key = frozenset((self.addr, addr))
        if key in self.net.up:
            self.net.up.discard(key)
            self.net.q[(self.addr, addr)].clear()
            self.net.q[(addr, self.addr)].clear()
            self._onNodeDisconnected(node)
            other = self.net.nodes.get(addr)
            if other is not None:
                prev = CLOCK.cur
                other.run(lambda: other.tr._onNodeDisconnected(TCPNode(self.addr)))
                CLOCK.cur = prev
        self.known.discard(addr)

    def send(self, node, message):
        addr = node.address
        if frozenset((self.addr, addr)) not in self.net.up:
            return False
        self.net.q[(self.addr, addr)].append(_pickle.loads(_pickle.dumps(message)))
        return True


# ----------------------------------------------------------------------------- replicated object
class Obj(SyncObj):
    def __init__(self, selfAddr, others, conf, transport):
        super(Obj, self).__init__(selfAddr, others, conf=conf, transport=transport)
        self.items = []          # replicated state: list of values, in apply order

    @replicated
    def put(self, v):
        pos = self.raftLastApplied + 1
        self.items.append(v)
        APPLIED[self.selfNode.id].append((pos, v))
        return pos


APPLIED = collections.defaultdict(list)     # addr -> [(log position, value)] observed executions


class SimNode(object):
    def __init__(self, net, addr, others, workdir, now=1000.0):
        self.net, self.addr, self.workdir = net, addr, workdir
        self.now = now
        self.start(others)

    def conf(self):
        base = os.path.join(self.workdir, self.addr.replace(':', '_'))
        return SyncObjConf(autoTick=False, dynamicMembershipChange=True,
                           journalFile=base + '.journal', fullDumpFile=base + '.dump',
                           useFork=False, appendEntriesUseBatch=True,
                           logCompactionMinEntries=10 ** 9, logCompactionMinTime=10 ** 9,
                           leaderFallbackTimeout=10 ** 6)

    def start(self, others):
        self.tr = SimTransport(self.net, self.addr, others)
        self.run(lambda: setattr(self, 'obj', Obj(self.addr, others, self.conf(), self.tr)))
        self.net.nodes[self.addr] = self

    def run(self, fn):
        prev = CLOCK.cur
        CLOCK.cur = self
        try:
            return fn()
        finally:
            CLOCK.cur = prev

    def tick(self, dt=0.0):
        self.now += dt
        self.run(lambda: self.obj._onTick(0.0))

    def kill(self):
        """SIGKILL: nothing is flushed or stored any more; files stay as they are.
        (journal records are written through a shared mmap: the page cache keeps them)"""
        for other in list(self.net.nodes):
            self.net.disconnect(self.addr, other, notify=False)
        del self.net.nodes[self.addr]
        # the peers notice the broken connections
        for other, n in self.net.nodes.items():
            n.run(lambda n=n: n.tr._onNodeDisconnected(TCPNode(self.addr)))
        self.obj._SyncObj__raftLog._destroy()      # only closes the file handles of the dead process
        self.obj = None

    # helpers to look inside
    def log(self):
        j = self.obj._SyncObj__raftLog
        return [j[i] for i in range(len(j))]

    def members(self):
        return set(n.id for n in self.obj.otherNodes) | {self.addr}


def membersFromLog(node, baseMembers):
    """member set defined by the membership commands in the node's log, starting from the member set
    at its first log entry"""
    res = set(baseMembers)
    for cmd, idx, term in node.log():
        if cmd[:1] == b'\x02':
            req = _so.pickle.loads(cmd[1:])
            if req[0] == 'add':
                res.add(req[1])
            else:
                res.discard(req[1])
    return res


def main():
    random.seed(1)
    workdir = tempfile.mkdtemp(prefix='finding1_')
    try:
        return scenario(workdir)
    finally:
        shutil.rmtree(workdir, ignore_errors=True)


def scenario(workdir):
    net = Net()
    A, B, C, D, E = 'a:1', 'b:1', 'c:1', 'd:1', 'e:1'
    nA = SimNode(net, A, [B, C], workdir)
    nB = SimNode(net, B, [A, C], workdir)
    nC = SimNode(net, C, [A, B], workdir)
    for x, y in ((A, B), (A, C), (B, C)):
        assert net.connect(x, y)

    def pump(pairs, rounds=6, dt=0.11):
        """deliver everything in flight on the given directed links, tick the endpoints (dt passes on each)"""
        for _ in range(rounds):
            for s, d in pairs:
                net.deliver(s, d)
            for a in sorted(set(x for p in pairs for x in p)):
                if a in net.nodes:
                    net.nodes[a].tick(dt)

    full = lambda names: [(x, y) for x in names for y in names if x != y]

    # --- 1. A is elected (term 1) -------------------------------------------------------------
    nA.tick(2.0)                               # only A's clock runs past its election deadline
    pump(full([A, B, C]))
    assert nA.obj._isLeader() and nA.obj.raftCurrentTerm == 1

    results = {}

    def submit(node, v):
        node.run(lambda: node.obj.put(v, callback=lambda res, err, v=v: results.__setitem__(v, (res, err))))

    # --- 2. some committed commands, then B compacts cleanly (dump file + trimmed journal) ------
    for v in ('v1', 'v2', 'v3'):
        submit(nA, v)
    pump(full([A, B, C]))
    assert nB.obj.raftLastApplied == nA.obj.raftLastApplied == 5
    nB.obj.forceLogCompaction()
    nB.tick(0.0)       # writes the dump (tmp + rename)
    nB.tick(0.0)       # trims the journal
    assert os.path.isfile(nB.conf().fullDumpFile)
    assert nB.log()[0][1] == 4 and nB.log()[1][1] == 5
    for v in ('v4', 'v5'):
        submit(nA, v)
    pump(full([A, B, C]))
    for n in (nA, nB, nC):
        assert n.obj.raftLastApplied == 7 and n.obj.raftCommitIndex == 7
    pump(full([A, B, C]), rounds=12)       # > 1 s passes on every node: the commit index reaches the .meta files
    assert nA.obj._isLeader() and nA.obj.raftCurrentTerm == 1

    # --- 3. the connection A<->C breaks; C stays a (slow) follower --------------------------------
    net.disconnect(A, C)

    # --- 4. D joins: fresh, empty, started with the current member list ---------------------------
    nD = SimNode(net, D, [A, B, C], workdir)
    addRes = {}
    nA.run(lambda: nA.obj.addNodeToCluster(D, callback=lambda r, e: addRes.__setitem__(D, e)))
    nA.tick(0.0)                               # 'add D' is log entry 8 on A, takes effect at once
    assert [e[1] for e in nA.log() if e[0][:1] == b'\x02'] == [8]
    assert net.connect(A, D)
    nA.tick(0.2)                               # A sends entry 8 to B, probes D
    net.deliver(A, B)                          # B stores 'add D' (journal) ...
    assert nB.log()[-1][1] == 8 and nB.members() == {A, B, C, D}
    assert nB.obj.raftCommitIndex == 7         # ... and does not know yet that it is committed
    # B's acknowledgement for entry 8 is on the wire, then B is killed
    ackOnWire = [m for m in net.q[(B, A)] if m['type'] == 'next_node_idx' and m['success'] and m['next_node_idx'] == 9]
    assert ackOnWire
    net.deliver(B, A)                          # A receives the acknowledgement
    nB.kill()
    pump([(A, D), (D, A)], rounds=8)           # D catches up and acknowledges
    assert nA.obj.raftCommitIndex == 8 and addRes.get(D) == FAIL_REASON.SUCCESS
    assert nA.members() == {A, B, C, D}

    # --- 5. E joins (allowed: 'add D' is committed and applied on the leader) ----------------------
    nE = SimNode(net, E, [A, B, C, D], workdir)
    nA.run(lambda: nA.obj.addNodeToCluster(E, callback=lambda r, e: addRes.__setitem__(E, e)))
    nA.tick(0.0)
    assert net.connect(A, E)
    pump(full([A, D, E]), rounds=10)
    assert addRes.get(E) == FAIL_REASON.SUCCESS and nA.members() == {A, B, C, D, E}
    submit(nA, 'x')                            # majority of 5 = 3 = {A, D, E}
    pump(full([A, D, E]), rounds=6)
    assert results.get('x', (None, None))[1] == FAIL_REASON.SUCCESS
    posX = results['x'][0]
    assert posX == 10 and nA.obj.raftCommitIndex >= 10

    # --- 6. B is started again from its journal + dump file ------------------------------------------
    appliedBeforeKill = APPLIED.pop(B)
    nB2 = SimNode(net, B, [A, C], workdir, now=nB.now)
    nB2.tick(0.0)                              # loads the dump, keeps the journal
    logB = nB2.log()
    assert [e[1] for e in logB] == [4, 5, 6, 7, 8], logB          # nothing acknowledged was forgotten ...
    expected = membersFromLog(nB2, {A, B, C})
    actual = nB2.members()
    print('B after restart: log holds entries %s, member set by log = %s, member set in use = %s'
          % ([e[1] for e in logB], sorted(expected), sorted(actual)))
    c10 = expected != actual

    # --- 7. B and C are connected to each other only (A, D, E unreachable for them) ------------------
    assert net.connect(B, C)
    nC.tick(2.0)                               # C lost its leader long ago: candidate, term 2
    net.deliver(C, B)                          # B: term 2, no vote (C's log is shorter)
    assert nB2.obj.raftCurrentTerm == 2
    net.deliver(B, C)
    nB2.tick(2.0)                              # B: candidate, term 3
    net.deliver(B, C)
    net.deliver(C, B)                          # C's vote: 2 of 3 in B's (stale) view
    leaderB = nB2.obj._isLeader()
    print('B is leader of term %d with member set %s (votes: B, C)' % (nB2.obj.raftCurrentTerm, sorted(nB2.members())))
    submit(nB2, 'y')
    nB2.tick(0.0)                              # y is entry 10 of B's log (entry 9 is B's no-op of term 3)
    nB2.tick(0.11)                             # entries 8..10 go to C
    pump([(B, C), (C, B)], rounds=6)
    print('A: term %d commit %d applied %s' % (nA.obj.raftCurrentTerm, nA.obj.raftCommitIndex, APPLIED[A]))
    print('B: term %d commit %d applied %s' % (nB2.obj.raftCurrentTerm, nB2.obj.raftCommitIndex, APPLIED[B]))
    print('callbacks: x -> %s, y -> %s' % (results.get('x'), results.get('y')))

    # --- the property checks ---------------------------------------------------------------------------
    byPosA = dict(APPLIED[A])
    byPosB = dict(APPLIED[B])
    clash = [(p, byPosA[p], byPosB[p]) for p in byPosA if p in byPosB and byPosA[p] != byPosB[p]]
    entryA = [e for e in nA.log() if e[1] == 10]
    entryB = [e for e in nB2.log() if e[1] == 10]
    if clash or (entryA and entryB and entryA != entryB and min(nA.obj.raftCommitIndex, nB2.obj.raftCommitIndex) >= 10):
        print('PROPERTY VIOLATED: C10/C01/C04 - after a restart B ignores the membership entry (add d:1) of its own '
              'journal, wins an election and commits with 2 of its stale 3-member set while {A,D,E} is a majority of '
              'the real 5-member set: position %d holds %r on A (callback SUCCESS) and %r on B (callback %s)'
              % (clash[0][0] if clash else 10, clash[0][1] if clash else entryA, clash[0][2] if clash else entryB,
                 'SUCCESS' if results.get('y', (None, None))[1] == FAIL_REASON.SUCCESS else results.get('y')))
        return 1
    if c10:
        print('PROPERTY VIOLATED: C10 - member set after restart %s differs from the one defined by the log %s'
              % (sorted(actual), sorted(expected)))
        return 1
    print('no violation (leaderB=%s)' % leaderB)
    return 0


if __name__ == '__main__':
    sys.exit(main())
