#!/usr/bin/env python3
"""
finding6.py  -  C02 / C15: a command whose *callback* raises is executed twice on the submitting node (and once on all
                others): the replicas of the battery diverge for good.

SyncObj.__applyLogEntries() executes the entry, then calls the waiting callbacks, and only then advances
__raftLastApplied.  An exception from a callback leaves the tick with the entry executed but not counted; the tick thread
(_autoTickThread) logs 'failed _onTick' and ticks again, and the same entry is executed a second time (the callbacks were
already popped, so nothing fails this time).  The library itself provides such a callback: ReplLockManager.tryAcquire()
called with its default arguments (callback=None, sync=False) ends in 'None(acquireRes, errCode)' -> TypeError inside
the apply loop.  With an idempotent command (lock acquire) the double execution is invisible; with ReplCounter.inc() it is
not.

(This is not the known 'method raises' problem: the replicated method is fine, the exception comes from client-side
code that has nothing to do with the state machine.)

Deterministic: in-memory transport, virtual clock, manual ticks wrapped in the same try/except as _autoTickThread.

exit 1 + 'PROPERTY VIOLATED: C02 ...' when the defect shows, 0 otherwise.
"""
import os
import sys
import pickle
import random
import collections

sys.path.insert(0, os.path.dirname(os.path.abspath(__file__)))

import pysyncobj.syncobj as _so
import pysyncobj.transport as _tr
from pysyncobj import SyncObj, SyncObjConf, FAIL_REASON
from pysyncobj.node import Node
from pysyncobj.transport import Transport


# --------------------------------------------------------------------------------------------------------------------
# deterministic harness: virtual clock + in-memory network with one FIFO queue per directed link
# --------------------------------------------------------------------------------------------------------------------
class Clock(object):
    def __init__(self):
        self.t = 1000.0

    def __call__(self):
        return self.t


CLOCK = Clock()
_so.monotonicTime = CLOCK
_tr.monotonicTime = CLOCK


class Net(object):
    """Connections are per unordered pair.  A live connection delivers in order and loses nothing; a disconnect loses
    everything in flight in both directions (TCP semantics)."""

    def __init__(self):
        self.transports = {}
        self.up = set()
        self.queues = collections.defaultdict(collections.deque)
        self.held = set()  # directed links whose messages are currently delayed

    def connect(self, a, b):
        key = frozenset((a, b))
        if key in self.up:
            return
        self.up.add(key)
        self.transports[a]._onNodeConnected(Node(b))
        self.transports[b]._onNodeConnected(Node(a))

    def disconnect(self, a, b):
        key = frozenset((a, b))
        if key not in self.up:
            return
        self.up.discard(key)
        self.queues[(a, b)].clear()
        self.queues[(b, a)].clear()
        for x, y in ((a, b), (b, a)):
            if x in self.transports:
                self.transports[x]._onNodeDisconnected(Node(y))

    def send(self, src, dst, message):
        if frozenset((src, dst)) not in self.up:
            return False
        self.queues[(src, dst)].append(pickle.dumps(message))
        return True

    def deliverLink(self, src, dst, count=None):
        q = self.queues[(src, dst)]
        n = 0
        while q and (count is None or n < count):
            msg = pickle.loads(q.popleft())
            self.transports[dst]._onMessageReceived(Node(src), msg)
            n += 1
        return n

    def deliverAll(self):
        progress = True
        while progress:
            progress = False
            for (src, dst) in sorted(self.queues):
                if (src, dst) in self.held:
                    continue
                if self.deliverLink(src, dst):
                    progress = True


class MemTransport(Transport):
    def __init__(self, net, selfId):
        super(MemTransport, self).__init__(None, None, None)
        self.net = net
        self.id = selfId
        net.transports[selfId] = self

    def send(self, node, message):
        return self.net.send(self.id, node.id, message)


def makeConf(**kw):
    args = dict(autoTick=False, raftMinTimeout=10.0, raftMaxTimeout=20.0, appendEntriesPeriod=0.5,
                connectionTimeout=40.0, leaderFallbackTimeout=100.0, commandsWaitLeader=True,
                appendEntriesUseBatch=True, logCompactionMinEntries=100000, logCompactionMinTime=1000000,
                dynamicMembershipChange=False)
    args.update(kw)
    return SyncObjConf(**args)


class Cluster(object):
    def __init__(self, ids, factory):
        self.net = Net()
        self.ids = list(ids)
        self.objs = {}
        self.factory = factory
        for i in self.ids:
            self.start(i)
        for i, a in enumerate(self.ids):
            for b in self.ids[i + 1:]:
                self.net.connect(a, b)

    def start(self, i):
        transport = MemTransport(self.net, i)
        self.objs[i] = self.factory(Node(i), [Node(j) for j in self.ids if j != i], transport)
        return self.objs[i]

    def tickAll(self, only=None):
        for i in self.ids:
            if i in self.objs and (only is None or i in only):
                self.objs[i]._onTick(0.0)

    def run(self, duration, dt=0.25, only=None):
        steps = int(round(duration / dt))
        for _ in range(steps):
            CLOCK.t += dt
            self.tickAll(only)
            self.net.deliverAll()

    def leader(self):
        leaders = [i for i in self.ids if i in self.objs and self.objs[i]._isLeader()]
        return leaders[0] if len(leaders) == 1 else None

    def electLeader(self):
        for _ in range(400):
            self.run(0.25)
            l = self.leader()
            if l is not None and all(o._getLeader() is not None and o._getLeader().id == l for o in self.objs.values()):
                self.run(2.0)
                return l
        raise RuntimeError('no leader elected')


# --------------------------------------------------------------------------------------------------------------------
# scenario
# --------------------------------------------------------------------------------------------------------------------
from pysyncobj.batteries import ReplCounter


def main():
    random.seed(1)
    counters = {}
    tickErrors = []

    def factory(selfNode, others, transport):
        counters[selfNode.id] = ReplCounter()
        return SyncObj(selfNode, others, conf=makeConf(), consumers=[counters[selfNode.id]], nodeClass=Node,
                       transport=transport)

    cl = Cluster(['a', 'b', 'c'], factory)
    L = cl.electLeader()
    F, G = [i for i in cl.ids if i != L]

    def tickAll(only=None):
        # what SyncObj._autoTickThread does: log the exception and tick again
        for i in cl.ids:
            try:
                cl.objs[i]._onTick(0.0)
            except Exception as e:
                tickErrors.append((i, repr(e)))
    cl.tickAll = tickAll

    calls = []

    def clientCallback(res, err):
        calls.append((res, err))
        raise ValueError('bug in client code, e.g. a closed GUI widget or a full disk while logging the result')

    counters[F].inc(callback=clientCallback)
    cl.run(5.0)
    counters[L].inc()
    cl.run(5.0)

    values = dict((i, counters[i].get()) for i in cl.ids)
    applied = dict((i, cl.objs[i].raftLastApplied) for i in cl.ids)
    print('callback invocations  :', calls)
    print('exceptions from ticks :', tickErrors)
    print('applied index per node:', applied)
    print('counter per node      :', values, '(two inc() were committed)')
    assert len(set(applied.values())) == 1
    assert calls == [(1, FAIL_REASON.SUCCESS)]
    if len(set(values.values())) != 1 or values[F] != 2:
        print('PROPERTY VIOLATED: C02 a command reported SUCCESS with result 1 was executed twice on node %s: the '
              'replicas of the ReplCounter differ after identical logs: %r' % (F, values))
        return 1
    print('ok')
    return 0


if __name__ == '__main__':
    sys.exit(main())
