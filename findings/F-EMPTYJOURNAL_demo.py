#!/usr/bin/env python
"""
finding4 (minor) - C08 / C06: the journal file is created in two primitive steps
    open(fileName, 'wb')            -> a zero-length file exists
    f.write(defaultHeader)          -> 40 header bytes
(ResizableFile.__init__, pysyncobj/journal.py:83-86).  A kill between the two leaves a zero-length journal.
Every later start then fails in ResizableFile.__init__ with "ValueError: cannot mmap an empty file"
(journal.py:88): the node can never be started again until somebody removes the file by hand.

The kill is produced for real: a forked child creates the journal with a file object whose write() is the
kill point (os._exit), the parent then "restarts" on the files the child left behind.

Exit code 1 + 'PROPERTY VIOLATED: ...' when the defect shows, 0 otherwise.
"""
import os, sys, tempfile, shutil

sys.path.insert(0, os.path.dirname(os.path.abspath(__file__)))

import pysyncobj.journal as journal
from pysyncobj.journal import createJournal


def main():
    d = tempfile.mkdtemp(prefix='pso-finding4-')
    path = os.path.join(d, 'journal')

    pid = os.fork()
    if pid == 0:
        # first incarnation: killed between creating the file and writing the header
        realOpen = open

        class KilledAtWrite(object):
            def __init__(self, f):
                self.f = f

            def __enter__(self):
                return self

            def __exit__(self, *a):
                return False

            def write(self, data):
                os._exit(9)                     # kill -9 right before the header write

        def openHook(name, mode='r', *a, **kw):
            f = realOpen(name, mode, *a, **kw)
            if name == path and mode == 'wb':
                return KilledAtWrite(f)
            return f

        journal.open = openHook                 # module-level name shadows the builtin; the library source is untouched
        createJournal(path)
        os._exit(0)
    os.waitpid(pid, 0)

    size = os.path.getsize(path)
    print('after the kill the journal file exists with %d bytes' % size)
    try:
        j = createJournal(path)                 # what SyncObj.__init__ does on every following start
        n = len(j)
        j._destroy()
        print('restart ok, %d entries' % n)
        rc = 0
    except Exception as e:
        print('restart fails: %r' % (e,))
        print('PROPERTY VIOLATED: C08/C06 - a kill between creating the journal file and writing its header leaves a '
              'journal that can never be reopened (%r); the node cannot be started again' % (e,))
        rc = 1
    shutil.rmtree(d, ignore_errors=True)
    return rc


if __name__ == '__main__':
    sys.exit(main())
