#!/usr/bin/env python3
"""
finding6 - C11: a large argument that happens to be batched behind a small command is never executed
on any replica, and it costs the cluster its leader - without a single network fault.

Real SyncObj nodes, real TCPTransport over 127.0.0.1, default batch / buffer sizes, manual ticks,
virtual clock. The leader A receives put('small', 1 byte) and put('big', 8 MB) in the same tick.

Two defects meet:
 (1) syncobj.py __getEntries(..., maxSizeBytes) (1109-1115) closes a batch AFTER the entry that crosses
     the limit, and __sendAppendEntries (1225) only splits a batch that consists of ONE oversized entry.
     [small, big] therefore travels as one single multi-megabyte frame - the start/process/finish
     chunking is bypassed.
 (2) tcp_connection.py send() (141-149) does not register WRITE interest after a partial send (finding5):
     the frame is pushed out one socket buffer per heartbeat (about 128 KiB per 0.1 s).
While the frame trickles out, the followers do not receive a single complete message: heartbeats are
queued behind it and - unlike start/process chunks - a partial frame does not refresh the election timer.
After raftMinTimeout..raftMaxTimeout the followers start an election and depose the healthy leader; the
old leader's own vote requests are stuck behind the same backlog; both commands are reported DISCARDED.

Control: the same 8 MB argument submitted alone is split into chunks and is executed everywhere with the
leader staying in place (slowly, for reason (2)).
"""
import os
import sys
import socket

sys.path.insert(0, os.path.dirname(os.path.abspath(__file__)))

import pysyncobj.syncobj as so
import pysyncobj.transport as tr
import pysyncobj.tcp_connection as tc
from pysyncobj import SyncObj, SyncObjConf, replicated


class Clock(object):
    now = 1000.0


def _clock():
    return Clock.now


so.monotonicTime = _clock
tr.monotonicTime = _clock
tc.monotonicTime = _clock


def freePorts(n):
    socks, ports = [], []
    for _ in range(n):
        s = socket.socket()
        s.bind(('127.0.0.1', 0))
        socks.append(s)
        ports.append(s.getsockname()[1])
    for s in socks:
        s.close()
    return ports


class Store(SyncObj):
    def __init__(self, selfAddr, others, conf):
        super(Store, self).__init__(selfAddr, others, conf)
        self.got = []

    @replicated
    def put(self, tag, blob):
        self.got.append((tag, len(blob)))
        return tag


def scenario(smallFirst, sizeBytes):
    Clock.now = 1000.0
    addrs = sorted('127.0.0.1:%d' % p for p in freePorts(3))
    names = dict(zip(addrs, 'ABC'))
    timeouts = {'A': 0.5, 'B': 1.0, 'C': 1.399}   # all within the default 0.4 .. 1.4 s
    nodes = {}
    stateChanges = []
    for addr in addrs:
        name = names[addr]
        t = timeouts[name]
        conf = SyncObjConf(autoTick=False, raftMinTimeout=t, raftMaxTimeout=t + 0.001,
                           onStateChanged=(lambda name: lambda old, new: stateChanges.append(
                               (round(Clock.now - 1000.0, 2), name, old, new)))(name))
        nodes[name] = Store(addr, [a for a in addrs if a != addr], conf)
    A, B, C = nodes['A'], nodes['B'], nodes['C']
    live = [A, B, C]
    escaped = []

    def run(duration, until=None, step=0.05):
        end = Clock.now + duration
        while Clock.now < end:
            Clock.now += step
            for _ in range(2):
                for o in live:
                    try:
                        o.doTick(0.0)
                    except Exception as e:
                        escaped.append(repr(e))
            if until is not None and until():
                return True
        return False

    run(3.0)
    assert A._isLeader(), 'setup: A is the leader'
    setupChanges = len(stateChanges)
    callbacks = []
    t0 = Clock.now
    expected = []
    if smallFirst:
        A.put('small', b'x', callback=lambda res, err: callbacks.append(('small', err, round(Clock.now - t0, 2))))
        expected.append(('small', 1))
    A.put('big', os.urandom(sizeBytes), callback=lambda res, err: callbacks.append(('big', err, round(Clock.now - t0, 2))))
    expected.append(('big', sizeBytes))
    done = run(90.0, until=lambda: all(o.got == expected for o in live))
    res = {
        'done': done, 'elapsed': Clock.now - t0, 'callbacks': callbacks,
        'stateChanges': stateChanges[setupChanges:], 'terms': [o.raftCurrentTerm for o in live],
        'got': [o.got for o in live], 'escaped': escaped, 'expected': expected,
        'leader': [n for n in 'ABC' if nodes[n]._isLeader()],
    }
    for o in live:
        o._doDestroy()
    return res


def main():
    size = 8 * 1024 * 1024
    control = scenario(smallFirst=False, sizeBytes=size)
    print('control, big argument alone    : executed everywhere=%s after %.1f s, callbacks=%r, leader changes=%d' % (
        control['done'], control['elapsed'], control['callbacks'], len(control['stateChanges'])))
    assert control['done'] and not control['stateChanges'] and not control['escaped'], 'control run misbehaves'

    r = scenario(smallFirst=True, sizeBytes=size)
    print('small + big in one batch       : executed everywhere=%s, callbacks (tag, FAIL_REASON, t)=%r' % (r['done'], r['callbacks']))
    print('   executed on A, B, C         : %r' % (r['got'],))
    print('   role changes (t, node, old, new): %r' % (r['stateChanges'],))
    print('   terms %r, leader now %r, exceptions %r' % (r['terms'], r['leader'], r['escaped']))

    if not r['done'] or r['stateChanges']:
        print('PROPERTY VIOLATED: C11 - without any fault, put(small); put(big %d bytes) was executed on %s of 3 replicas '
              '(callbacks report FAIL_REASON %s) and the healthy leader was deposed (%d role changes, term 1 -> %d)' % (
                  size, sum(1 for g in r['got'] if g == r['expected']), [c[1] for c in r['callbacks']],
                  len(r['stateChanges']), max(r['terms'])))
        sys.exit(1)
    print('ok')
    sys.exit(0)


if __name__ == '__main__':
    main()
