#!/usr/bin/env python
"""
finding1 - C15: ReplSet.pop() removes DIFFERENT elements on different replicas when the elements are only
partially ordered (frozensets, i.e. nested containers; also float('nan') ...), because min() over a partial
order depends on the iteration order of the set, and the iteration order of equal sets differs between
replicas (one built operation by operation through the log, one restored from a snapshot; in real
deployments also: every process has its own string hash seed).

Schedule (3 nodes a, b, c; in-memory transport, manual ticks, controllable clock):
  1. a and b are connected, c is cut off. a becomes leader.
  2. through the leader: add 100..139, add frozenset({1}), add frozenset({2}), remove 100..139
     (the sets of a and b keep their grown hash table: iteration order frozenset({1}), frozenset({2})).
  3. a compacts its log (forceLogCompaction) - the entries are gone, only the snapshot is left.
  4. c is connected, receives the snapshot: its set is rebuilt in a fresh small table
     (iteration order frozenset({2}), frozenset({1})). All three replicas hold EQUAL sets now.
  5. pop() is submitted once. Every replica executes that one command.
Expected (C15): all replicas remove the same element and stay equal.
Observed: a and b remove frozenset({1}), c removes frozenset({2}).

Exit code 1 + 'PROPERTY VIOLATED: C15 ...' when the defect shows, 0 otherwise.
"""
import sys, os, pickle as _pk, logging
sys.path.insert(0, os.path.dirname(os.path.abspath(__file__)))
import pysyncobj.syncobj as _so
from pysyncobj import SyncObj, SyncObjConf
from pysyncobj.node import Node
from pysyncobj.transport import Transport
from pysyncobj.batteries import ReplSet

logging.disable(logging.CRITICAL)


class Clock(object):
    now = 1000.0

    def __call__(self):
        return self.now


CLOCK = Clock()
_so.monotonicTime = CLOCK


class MemTransport(Transport):
    def __init__(self, net, selfId):
        Transport.__init__(self, None, None, None)
        self.net, self.selfId = net, selfId

    def send(self, node, message):
        return self.net.send(self.selfId, node.id, message)


class Net(object):
    """FIFO queue per direction of a link; a link is up or down; nothing is lost on a link that is up."""

    def __init__(self):
        self.objs, self.trs, self.up, self.q = {}, {}, set(), {}

    def add(self, nid, factory):
        self.trs[nid] = MemTransport(self, nid)
        self.objs[nid] = factory(self.trs[nid])

    def connect(self, a, b):
        self.up.add(frozenset((a, b)))
        self.q[(a, b)], self.q[(b, a)] = [], []
        self.trs[a]._onNodeConnected(Node(b))
        self.trs[b]._onNodeConnected(Node(a))

    def send(self, src, dst, message):
        if frozenset((src, dst)) not in self.up:
            return False
        self.q[(src, dst)].append(_pk.dumps(message, 2))
        return True

    def deliverAll(self):
        busy = True
        while busy:
            busy = False
            for (s, d) in sorted(self.q):
                while self.q[(s, d)]:
                    busy = True
                    self.trs[d]._onMessageReceived(Node(s), _pk.loads(self.q[(s, d)].pop(0)))

    def run(self, seconds, only=None):
        t = 0.0
        while t < seconds:
            CLOCK.now += 0.05
            t += 0.05
            for i in (only or sorted(self.objs)):
                self.objs[i]._onTick(0.0)
            self.deliverAll()


IDS = ['a', 'b', 'c']
SETS = {}


def factory(i):
    def f(tr):
        SETS[i] = ReplSet()
        conf = SyncObjConf(autoTick=False, useFork=False, connectionTimeout=1000, leaderFallbackTimeout=1000,
                           logCompactionMinEntries=10 ** 9, logCompactionMinTime=10 ** 9)
        return SyncObj(Node(i), [Node(x) for x in IDS if x != i], conf=conf, transport=tr, nodeClass=Node,
                       consumers=[SETS[i]])
    return f


def main():
    net = Net()
    for i in IDS:
        net.add(i, factory(i))
    net.connect('a', 'b')                       # c stays cut off
    t = 0
    while not net.objs['a']._isLeader() and t < 1000:
        net.run(0.05, only=['a'])               # only a's election timer runs: a becomes the leader
        t += 1
    assert net.objs['a']._isLeader()
    net.run(0.5)

    s = SETS['a']
    for k in range(100, 140):
        s.add(k)
    s.add(frozenset([1]))
    s.add(frozenset([2]))
    for k in range(100, 140):
        s.remove(k)
    net.run(1.0)
    assert SETS['a'].rawData() == SETS['b'].rawData() == {frozenset([1]), frozenset([2])}

    net.objs['a'].forceLogCompaction()
    net.run(0.5)
    assert net.objs['a']._getRaftLogSize() == 2, 'log was not compacted'

    net.connect('a', 'c')
    net.connect('b', 'c')
    net.run(2.0)
    before = [set(SETS[i].rawData()) for i in IDS]
    assert before[0] == before[1] == before[2] == {frozenset([1]), frozenset([2])}, before
    print('all replicas equal before pop():', before[0])
    print('iteration order  a: %r   c: %r' % (list(SETS['a'].rawData()), list(SETS['c'].rawData())))

    res = []
    SETS['a'].pop(callback=lambda r, e: res.append((r, e)))
    net.run(1.0)
    assert len(res) == 1 and res[0][1] == 0, res
    applied = [net.objs[i].raftLastApplied for i in IDS]
    assert applied[0] == applied[1] == applied[2], applied
    after = dict((i, set(SETS[i].rawData())) for i in IDS)
    print('pop() returned %r to the caller' % (res[0][0],))
    print('after pop():', after)
    if not (after['a'] == after['b'] == after['c']):
        print('PROPERTY VIOLATED: C15 replicas of a ReplSet differ after one replicated pop(): %r' % (after,))
        return 1
    print('ok: replicas equal')
    return 0


if __name__ == '__main__':
    sys.exit(main())
