#!/usr/bin/env python3
"""
finding1.py - a leader accepts an acknowledgement (next_node_idx) that the follower sent to it in an
EARLIER term.  next_node_idx carries no term, and the leader does not check it against anything, so an
acknowledgement that was delayed on a live connection across a re-election is counted as if the follower
stored the entries of the leader's NEW log.  The leader then commits (and applies, and reports SUCCESS for)
entries that only a minority stores; a later leader, legitimately elected, overwrites them.

Violates C04 (commit must be majority backed), C03 (new leader holds all committed commands) and
C01 (two nodes apply different commands at one log position).

Root cause: pysyncobj/syncobj.py __sendNextNodeIdx (:1038-1046) puts no term into next_node_idx and the leader part
of __onMessageReceived (:1008-1023) accepts every next_node_idx while the node is LEADER; __onBecomeLeader (:1158-1166)
resets matchIndex to 0, so any old acknowledgement is "larger" and is taken; the commit rule (:598-621) counts it.
Minimal repair: add 'term': currentTerm to next_node_idx and let the leader ignore one whose term differs from its
current term (checked on a scratch copy: this script then exits 0).

Deterministic: real SyncObj objects, in-memory transport, controllable clock, no threads, no sockets.
Only delays, partitions (connection loss drops what is in flight) and tick timing are used.
Exit code 1 + 'PROPERTY VIOLATED: ...' when the defect shows, 0 otherwise.
"""
import os
import sys
import pickle
import collections

sys.path.insert(0, os.path.dirname(os.path.abspath(__file__)))

import pysyncobj.syncobj as _so
from pysyncobj import SyncObj, SyncObjConf, replicated
from pysyncobj.transport import Transport
from pysyncobj.node import Node


# ----------------------------------------------------------------------------------------------------------
# deterministic harness
# ----------------------------------------------------------------------------------------------------------
class Clock(object):
    now = 1000.0


_so.monotonicTime = lambda: Clock.now


class Net(object):
    """Point to point FIFO channels.  A link is either up (both ends see it) or down; taking it down drops
    everything in flight in both directions - exactly what a TCP connection does."""

    def __init__(self):
        self.tr = {}
        self.up = set()
        self.q = collections.defaultdict(collections.deque)   # (src, dst) -> deque of (bytes, send time)
        self.maxDelay = 0.0

    def connect(self, a, b):
        k = frozenset((a, b))
        if k in self.up:
            return
        self.up.add(k)
        self.tr[a]._onNodeConnected(Node(b))
        self.tr[b]._onNodeConnected(Node(a))

    def disconnect(self, a, b):
        k = frozenset((a, b))
        if k not in self.up:
            return
        self.up.discard(k)
        self.q[(a, b)].clear()
        self.q[(b, a)].clear()
        self.tr[a]._onNodeDisconnected(Node(b))
        self.tr[b]._onNodeDisconnected(Node(a))

    def send(self, src, dst, msg):
        if frozenset((src, dst)) not in self.up:
            return False
        self.q[(src, dst)].append((pickle.dumps(msg), Clock.now))
        return True

    def pending(self, src, dst):
        return [pickle.loads(m) for m, _ in self.q[(src, dst)]]

    def deliver(self, src, dst, count=None):
        """deliver the first `count` (default: all currently queued) messages of channel src->dst, in order"""
        q = self.q[(src, dst)]
        n = len(q) if count is None else count
        done = 0
        while n > 0 and q:
            m, t = q.popleft()
            self.maxDelay = max(self.maxDelay, Clock.now - t)
            self.tr[dst]._onMessageReceived(Node(src), pickle.loads(m))
            n -= 1
            done += 1
            CHECK('deliver %s->%s' % (src, dst))
        return done


class SimTransport(Transport):
    def __init__(self, net, selfId):
        Transport.__init__(self, None, None, None)
        self.net = net
        self.selfId = selfId
        net.tr[selfId] = self

    def send(self, node, message):
        return self.net.send(self.selfId, node.id, message)


class Machine(SyncObj):
    """replicated object: an ordered list of the values written to it"""

    def __init__(self, net, selfId, allIds, **confArgs):
        # attributes created before SyncObj.__init__ are NOT part of the replicated/serialized state
        self.trace = []      # (log position, value) for every executed replicated call on this node
        self.results = []    # (value, result, error) of every callback fired on this node
        self.nid = selfId
        conf = SyncObjConf(autoTick=False, appendEntriesUseBatch=True, dynamicMembershipChange=False,
                           onStateChanged=self._stateChanged, **confArgs)
        SyncObj.__init__(self, Node(selfId), [Node(i) for i in allIds if i != selfId], conf=conf,
                         transport=SimTransport(net, selfId))
        self.values = []     # replicated state

    def _stateChanged(self, old, new):
        if new == 2:
            BECAME_LEADER(self)

    @replicated
    def put(self, v):
        self.trace.append((self.raftLastApplied + 1, v))
        self.values.append(v)
        return len(self.values)

    def submit(self, v):
        self.put(v, callback=lambda res, err, v=v: self.results.append((v, res, err)))

    # observation helpers (read only)
    def log(self):
        j = self._SyncObj__raftLog
        return [j[i] for i in range(len(j))]

    def stores(self, idx, term):
        lg = self.log()
        if idx < lg[0][1]:
            return True           # covered by this node's snapshot
        for e in lg:
            if e[1] == idx:
                return e[2] == term
        return False


NODES = {}
COMMITTED = {}        # idx -> (term, command) as first reported committed by any node
LAST = {}             # node -> (commitIndex, lastApplied)
LEADERS = {}          # term -> node id
VIOLATIONS = []


def violation(text, key=None):
    key = key or text
    if key not in VIOLATIONS:
        VIOLATIONS.append(key)
        print('PROPERTY VIOLATED: ' + text)


def BECAME_LEADER(m):
    t = m.raftCurrentTerm
    if t in LEADERS and LEADERS[t] != m.nid:
        violation('C03 two leaders in term %d: %s and %s' % (t, LEADERS[t], m.nid))
    LEADERS[t] = m.nid
    for idx, (term, cmd) in sorted(COMMITTED.items()):
        if not m.stores(idx, term):
            violation('C03 %s became leader of term %d without committed entry idx=%d term=%d' % (m.nid, t, idx, term))
            break


def CHECK(step):
    majority = len(NODES) // 2 + 1
    for nid, m in sorted(NODES.items()):
        ci, la = m.raftCommitIndex, m.raftLastApplied
        pci, pla = LAST.get(nid, (ci, la))
        if ci < pci:
            violation('C04 commit index of %s went backwards %d -> %d (%s)' % (nid, pci, ci, step))
        if la < pla:
            violation('C04 applied index of %s went backwards %d -> %d (%s)' % (nid, pla, la, step))
        LAST[nid] = (ci, la)
        if ci > pci:
            byIdx = dict((e[1], e) for e in m.log())
            for idx in range(pci + 1, ci + 1):
                e = byIdx.get(idx)
                if e is None:
                    continue
                holders = sorted(x for x, o in NODES.items() if o.stores(idx, e[2]))
                if idx not in COMMITTED:
                    COMMITTED[idx] = (e[2], e[0])
                if len(holders) < majority:
                    violation('C04 %s reports idx=%d (term %d) committed at step "%s" but only %s of %d voters store it'
                              % (nid, idx, e[2], step, holders, len(NODES)))
    # committed entries never change / never vanish from a majority
    for idx, (term, cmd) in sorted(COMMITTED.items()):
        holders = [x for x, o in NODES.items() if o.stores(idx, term)]
        if len(holders) < majority:
            violation('C04 committed entry idx=%d term=%d is stored by %s only (%s)' % (idx, term, sorted(holders), step),
                      key=('vanished', idx, tuple(sorted(holders))))
    # state machine safety
    byPos = {}
    for nid, m in sorted(NODES.items()):
        for pos, v in m.trace:
            if pos in byPos and byPos[pos][1] != v:
                violation('C01 position %d: %s applied %r but %s applied %r' % (pos, byPos[pos][0], byPos[pos][1], nid, v),
                          key=('pos', pos))
            byPos.setdefault(pos, (nid, v))
    vals = sorted((m.values for m in NODES.values()), key=len)
    for s, l in zip(vals, vals[1:]):
        if l[:len(s)] != s:
            violation('C01 object states diverged: %r vs %r' % (s, l), key='diverged')


def tick(*ids):
    for i in ids:
        NODES[i]._onTick(0.0)
        CHECK('tick %s' % i)


def advance(dt):
    Clock.now += dt


def show(title):
    print('--- ' + title)
    for nid, m in sorted(NODES.items()):
        print('   %s term=%d leader=%-5s commit=%d applied=%d log=%s values=%s' % (
            nid, m.raftCurrentTerm, m._isLeader(), m.raftCommitIndex, m.raftLastApplied,
            ['%d/t%d' % (e[1], e[2]) for e in m.log()], m.values))


# ----------------------------------------------------------------------------------------------------------
# the schedule
# ----------------------------------------------------------------------------------------------------------
def main():
    net = Net()
    ids = ['a', 'b', 'c', 'd', 'e']
    for i in ids:
        NODES[i] = Machine(net, i, ids, raftMinTimeout=0.4, raftMaxTimeout=0.5)   # everything else is default
    for x in ids:
        for y in ids:
            if x < y:
                net.connect(x, y)
    a, b, c, d, e = [NODES[i] for i in ids]
    PERIOD = 0.11                                           # a bit more than appendEntriesPeriod
    TIMEOUT = 0.55                                          # a bit more than raftMaxTimeout

    def exchange(leader, followers, rounds=2):
        """leader ticks, the listed followers receive and answer, leader receives the answers"""
        for _ in range(rounds):
            advance(PERIOD)
            tick(leader)
            for f in followers:
                net.deliver(leader, f)
                tick(f)                      # the follower applies what it learned to be committed
                net.deliver(f, leader)
            tick(leader)

    # -- phase 0: a is elected in term 1, one command is committed everywhere -----------------------------
    advance(TIMEOUT)
    tick('a')
    for f in 'bcde':
        net.deliver('a', f)
        net.deliver(f, 'a')
    assert a._isLeader() and a.raftCurrentTerm == 1
    exchange('a', 'bcde')
    a.submit('base')
    exchange('a', 'bcde', rounds=3)
    assert all(m.values == ['base'] for m in NODES.values())
    show('phase 0: a leads term 1, "base" applied everywhere')

    # -- phase 1: network splits {a,b} | {c,d,e}; a appends x1..x6, only b receives them.
    #    b's acknowledgement is delayed on the live connection b->a (nothing from b->a is delivered from now on).
    for x in 'ab':
        for y in 'cde':
            net.disconnect(x, y)
    for v in ('x1', 'x2', 'x3', 'x4', 'x5', 'x6'):
        a.submit(v)
    tick('a')                         # a appends x1..x6 to its log
    advance(PERIOD)
    tick('a')                         # ... and sends them (only b is reachable)
    net.deliver('a', 'b')
    staleAck = [m for m in net.pending('b', 'a') if m['type'] == 'next_node_idx' and m['success']]
    assert staleAck and staleAck[-1]['next_node_idx'] == 10, staleAck
    tHold = Clock.now
    show('phase 1: a (term 1) and b hold x1..x6 at 4..9; b->a carries a delayed ack next_node_idx=10')

    # -- phase 2: c wins term 2 with the votes of d and e, commits its own entry at index 4 ---------------
    advance(TIMEOUT)
    tick('c')
    for f in 'de':
        net.deliver('c', f)
        net.deliver(f, 'c')
    assert c._isLeader() and c.raftCurrentTerm == 2
    exchange('c', 'de')
    c.submit('y1')
    exchange('c', 'de', rounds=3)
    # the partition heals for b and for a: both follow c, their uncommitted x1..x6 are replaced
    net.connect('b', 'c')
    net.connect('a', 'c')
    exchange('c', 'abde', rounds=3)   # replies of b to c travel on b->c; b->a is still not delivered
    assert [e[2] for e in a.log()] == [e[2] for e in c.log()] == [e[2] for e in b.log()]
    show('phase 2: c led term 2; a and b follow c, x1..x6 are gone (never committed, fine)')

    # -- phase 3: c drops out, a is elected again (term 3) with the votes of d and e ----------------------
    for y in 'abde':
        net.disconnect('c', y)
    for y in 'de':
        net.connect('a', y)
    advance(TIMEOUT)
    tick('a')
    for f in 'de':
        net.deliver('a', f)
        net.deliver(f, 'a')
    assert a._isLeader() and a.raftCurrentTerm == 3
    net.deliver('a', 'b')             # b gets request_vote and the first append_entries of term 3; answers queue up behind the stale ack
    show('phase 3: a leads term 3')

    # -- phase 4: the delayed messages of b->a arrive now, oldest first: the ack of term 1 says "next index 10"
    print('   b->a delivers (in order): %s' % [(m['type'], m.get('next_node_idx')) for m in net.pending('b', 'a')])
    print('   the oldest of them waited %.2f s on the live connection (connectionTimeout is %.1f s)' % (
        Clock.now - tHold, a.conf.connectionTimeout))
    net.deliver('b', 'a')
    st = a.getStatus()
    print('   leader a now has matchIndex[b]=%d nextIndex[b]=%d although b stores only up to index %d' % (
        st['match_idx_server_b'], st['next_node_idx_server_b'], b.log()[-1][1]))

    # a receives two commands; d receives and acknowledges them; b and e have not received them yet
    a.submit('w1')
    a.submit('w2')
    tick('a')                          # appended
    advance(PERIOD)
    tick('a')                          # sent
    net.deliver('a', 'd')
    net.deliver('d', 'a')
    tick('a')                          # commit rule: a + d + (stale) b  -> "majority"
    show('phase 4: a counted the stale ack of b: w1, w2 committed and applied on a, stored by a and d only')
    print('   callbacks fired on a: %s' % a.results)

    # -- phase 5: a and d are cut off; b, c, e (a majority) elect b and go on --------------------------------
    for x in 'ad':
        for y in 'bce':
            net.disconnect(x, y)
    net.connect('b', 'c')
    net.connect('b', 'e')
    net.connect('c', 'e')
    advance(TIMEOUT)
    tick('b')
    for f in 'ce':
        net.deliver('b', f)
        net.deliver(f, 'b')
    assert b._isLeader(), 'b should win term 4'
    exchange('b', 'ce')
    b.submit('z1')
    b.submit('z2')
    exchange('b', 'ce', rounds=3)
    show('phase 5: b leads term %d with c and e' % b.raftCurrentTerm)

    print('   max time any delivered message spent in flight: %.2f s' % net.maxDelay)
    if VIOLATIONS:
        print('%d violation(s)' % len(VIOLATIONS))
        return 1
    print('no violation observed')
    return 0


if __name__ == '__main__':
    sys.exit(main())
