#!/usr/bin/env python
"""
finding2.py - with user-supplied serializer/deserializer functions a received snapshot that the
follower recognises as STALE (and therefore does not install) has already overwritten the user's
object state: the deserializer - the only place where the user's state can be restored - is called
BEFORE the staleness check.  The follower keeps raftLastApplied = n but holds the state of an older
position m < n, for ever.

PROPERTY VIOLATED: C09 (snapshot through user-supplied serializer functions; state == replay at
raftLastApplied) and C01 (object state always equals the executed prefix).

Schedule (only delays and one connection loss): two heartbeats are rejected by a lagging follower,
the leader reacts to the first rejection with a snapshot + entries, the follower installs it and
applies the entries; then the second (delayed) rejection reaches the leader, which sends the same
snapshot again.  Control run: the very same schedule with the built-in serializer is harmless.
Exit code 1 when the defect shows, 0 otherwise.
"""
import os
import sys
import copy
import random
import shutil
import tempfile
import collections
import pickle as _pickle

sys.path.insert(0, os.path.dirname(os.path.abspath(__file__)))

import pysyncobj.syncobj as _so
from pysyncobj import SyncObj, SyncObjConf, replicated, FAIL_REASON
from pysyncobj.transport import Transport
from pysyncobj.node import TCPNode

# ----------------------------------------------------------------------------- clock
class _Clock(object):
    def __init__(self):
        self.cur = None          # SimNode that is running right now
        self.base = 1000.0

    def __call__(self):
        if self.cur is None:
            return self.base
        self.cur.now += 1e-7     # time never stands still (loops that wait for the clock terminate)
        return self.cur.now

CLOCK = _Clock()
_so.monotonicTime = CLOCK
import pysyncobj.transport as _tr
_tr.monotonicTime = CLOCK


# ----------------------------------------------------------------------------- network
class Net(object):
    def __init__(self):
        self.nodes = {}                                  # addr -> SimNode (alive ones)
        self.up = set()                                  # frozenset((a, b)) of connected pairs
        self.q = collections.defaultdict(collections.deque)   # (src, dst) -> messages in flight

    def connect(self, a, b):
        """TCP connect between two live processes; refused unless both know each other."""
        na, nb = self.nodes[a], self.nodes[b]
        if b not in na.tr.known or a not in nb.tr.known:
            return False
        key = frozenset((a, b))
        if key in self.up:
            return True
        self.up.add(key)
        self.q[(a, b)].clear()
        self.q[(b, a)].clear()
        na.run(lambda: na.tr._onNodeConnected(TCPNode(b)))
        nb.run(lambda: nb.tr._onNodeConnected(TCPNode(a)))
        return True

    def disconnect(self, a, b, notify=True):
        """The connection a<->b breaks: everything in flight is lost, both ends notice."""
        key = frozenset((a, b))
        if key not in self.up:
            return
        self.up.discard(key)
        self.q[(a, b)].clear()
        self.q[(b, a)].clear()
        if notify:
            for x, y in ((a, b), (b, a)):
                n = self.nodes.get(x)
                if n is not None:
                    n.run(lambda n=n, y=y: n.tr._onNodeDisconnected(TCPNode(y)))

    def deliver(self, src, dst, count=None):
        """Deliver (in order) the messages in flight from src to dst."""
        q = self.q[(src, dst)]
        n = 0
        while q and (count is None or n < count):
            msg = q.popleft()
            node = self.nodes[dst]
            node.run(lambda: node.tr._onMessageReceived(TCPNode(src), msg))
            n += 1
        return n


class SimTransport(Transport):
    def __init__(self, net, selfAddr, others):
        Transport.__init__(self, None, None, None)
        self.net = net
        self.addr = selfAddr
        self.known = set(others)

    def addNode(self, node):
        self.known.add(node.address)

    def dropNode(self, node):
        # like TCPTransport.dropNode: the connection is closed, the owner is told, no reconnect
        addr = node.address
        key = frozenset((self.addr, addr))
        if key in self.net.up:
            self.net.up.discard(key)
            self.net.q[(self.addr, addr)].clear()
            self.net.q[(addr, self.addr)].clear()
            self._onNodeDisconnected(node)
            other = self.net.nodes.get(addr)
            if other is not None:
                prev = CLOCK.cur
                other.run(lambda: other.tr._onNodeDisconnected(TCPNode(self.addr)))
                CLOCK.cur = prev
        self.known.discard(addr)

    def send(self, node, message):
        addr = node.address
        if frozenset((self.addr, addr)) not in self.net.up:
            return False
        self.net.q[(self.addr, addr)].append(_pickle.loads(_pickle.dumps(message)))
        return True



# ----------------------------------------------------------------------------- replicated object
class Obj(SyncObj):
    def __init__(self, selfAddr, others, conf, transport):
        super(Obj, self).__init__(selfAddr, others, conf=conf, transport=transport)
        self.items = []          # replicated state: list of values, in apply order

    @replicated
    def put(self, v):
        self.items.append(v)
        return len(self.items)


class SimNode(object):
    def __init__(self, net, addr, others, workdir, custom, now=1000.0):
        self.net, self.addr, self.workdir, self.custom = net, addr, workdir, custom
        self.now = now
        self.obj = None
        self.tr = SimTransport(net, addr, others)
        self.run(lambda: setattr(self, 'obj', Obj(addr, others, self.conf(), self.tr)))
        net.nodes[addr] = self

    # user-supplied functions, written the way the documentation of SyncObjConf asks for:
    # serializer(fileName, data) must store 'data' (library internals) together with the user's object data,
    # deserializer(fileName) restores the user's object data and returns 'data'.
    def userSerializer(self, fileName, data):
        with open(fileName, 'wb') as f:
            _pickle.dump((data, list(self.obj.items)), f)

    def userDeserializer(self, fileName):
        with open(fileName, 'rb') as f:
            data, items = _pickle.load(f)
        self.obj.items = items
        return data

    def conf(self):
        base = os.path.join(self.workdir, self.addr.replace(':', '_'))
        kw = dict(autoTick=False, fullDumpFile=base + '.dump', useFork=False,
                  logCompactionMinEntries=10 ** 9, logCompactionMinTime=10 ** 9,
                  leaderFallbackTimeout=10 ** 6)
        if self.custom:
            kw['serializer'] = self.userSerializer
            kw['deserializer'] = self.userDeserializer
        return SyncObjConf(**kw)

    def run(self, fn):
        prev = CLOCK.cur
        CLOCK.cur = self
        try:
            return fn()
        finally:
            CLOCK.cur = prev

    def tick(self, dt=0.0):
        self.now += dt
        self.run(lambda: self.obj._onTick(0.0))

    def log(self):
        j = self.obj._SyncObj__raftLog
        return [j[i] for i in range(len(j))]


def scenario(workdir, custom):
    net = Net()
    A, B, F = 'a:1', 'b:1', 'f:1'
    nA = SimNode(net, A, [B, F], workdir, custom)
    nB = SimNode(net, B, [A, F], workdir, custom)
    nF = SimNode(net, F, [A, B], workdir, custom)
    for x, y in ((A, B), (A, F), (B, F)):
        assert net.connect(x, y)

    def pump(pairs, rounds=6, dt=0.11):
        for _ in range(rounds):
            for s, d in pairs:
                net.deliver(s, d)
            for a in sorted(set(x for p in pairs for x in p)):
                net.nodes[a].tick(dt)

    full = lambda names: [(x, y) for x in names for y in names if x != y]
    submitted = []

    def submit(v):
        submitted.append(v)
        nA.run(lambda: nA.obj.put(v))

    # 1. A is elected, three commands are applied everywhere
    nA.tick(2.0)
    pump(full([A, B, F]))
    assert nA.obj._isLeader()
    for v in ('c1', 'c2', 'c3'):
        submit(v)
    pump(full([A, B, F]))
    assert nF.obj.items == ['c1', 'c2', 'c3'] and nF.obj.raftLastApplied == 5

    # 2. messages A->F are delayed from now on; A and B go on, A compacts its log, goes on
    for v in ('c4', 'c5', 'c6', 'c7', 'c8'):
        submit(v)
    pump([(A, B), (B, A)])
    assert nA.obj.raftLastApplied == 10
    nA.obj.forceLogCompaction()
    nA.tick(0.0)
    nA.tick(0.0)
    assert nA.log()[0][1] == 9                 # snapshot at position 10, log trimmed
    for v in ('c9', 'c10'):
        submit(v)
    pump([(A, B), (B, A)])
    assert nA.obj.raftLastApplied == 12 and nA.obj._SyncObj__raftNextIndex[TCPNode(F)] == 13
    # 3. the connection A<->F breaks: everything A had sent to F is lost. It is re-established.
    net.disconnect(A, F)
    assert nF.obj.raftLastApplied == 5
    assert net.connect(A, F)
    # 4. two heartbeats (prevLogIdx 12) reach F before A sees an answer: F rejects both (hint: 6)
    nA.tick(0.11)
    nA.tick(0.11)
    assert len(net.q[(A, F)]) == 2
    net.deliver(A, F)
    rejects = list(net.q[(F, A)])
    assert len(rejects) == 2 and all(m['reset'] and m['next_node_idx'] == 6 for m in rejects)
    # 5. the first rejection arrives: A sends its snapshot (position 10) and entries 11, 12
    net.deliver(F, A, 1)
    nA.tick(0.11)
    net.deliver(A, F)
    nF.tick(0.0)
    assert nF.obj.raftLastApplied == 12 and nF.obj.items == submitted, (nF.obj.raftLastApplied, nF.obj.items)
    # 6. the second rejection arrives (delayed, but in order): A sends the snapshot again
    net.deliver(F, A, 1)
    nA.tick(0.11)
    net.deliver(A, F)
    nF.tick(0.0)
    stateAfterStale = list(nF.obj.items)
    appliedAfterStale = nF.obj.raftLastApplied
    # 7. no more faults: everything is delivered, one more command
    submit('c11')
    pump(full([A, B, F]), rounds=10)
    return submitted, stateAfterStale, appliedAfterStale, list(nF.obj.items), nF.obj.raftLastApplied, list(nA.obj.items)


def main():
    random.seed(1)
    rc = 0
    for custom in (False, True):
        workdir = tempfile.mkdtemp(prefix='finding2_')
        try:
            submitted, st, ap, finalF, finalAp, finalA = scenario(workdir, custom)
        finally:
            shutil.rmtree(workdir, ignore_errors=True)
        mode = 'user-supplied serializer' if custom else 'built-in serializer'
        print('[%s] after the stale snapshot: F.raftLastApplied=%d F.items=%s' % (mode, ap, st))
        print('[%s] at the end:               F.raftLastApplied=%d F.items=%s  (leader: %s)' % (mode, finalAp, finalF, finalA))
        expected = submitted[:ap - 2]          # positions 1, 2 are no-ops; position p holds command number p-2
        if st != expected:
            print('PROPERTY VIOLATED: C09/C01 [%s] - F ignored a stale snapshot (position 10) as far as log and '
                  'raftLastApplied (%d) are concerned, but its object state was replaced by the snapshot: %s, '
                  'expected %s' % (mode, ap, st, expected))
            rc = 1
        if finalF != finalA:
            print('PROPERTY VIOLATED: C01 [%s] - after all faults stopped F holds %s, the leader %s at the same '
                  'applied index' % (mode, finalF, finalA))
            rc = 1
    if rc == 0:
        print('no violation')
    return rc


if __name__ == '__main__':
    sys.exit(main())
