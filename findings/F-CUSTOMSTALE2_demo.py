#!/usr/bin/env python3
"""finding1: with user-supplied serializer/deserializer functions, a stale snapshot that the follower
"examines and ignores" still overwrites the follower's object state (C01 / C09 / C05).

The follower-side repairs (36ddcab, 1496a28, add3134) look at a completely received snapshot first
(Serializer.deserialize(incoming=True)) and only install it when it reaches beyond the local commit index.
In custom-serializer mode the only way the user object can be restored is as a side effect of the user's
deserializer(fileName) -- and that function is called in order to *look* at the snapshot.  So the object is
rolled back to the snapshot's position while raftLastApplied, the log and the commit index stay where
they were: the replica silently diverges for good.

Schedule (3 voters a, b, c; real SyncObj objects, in-memory FIFO transport, virtual clock):
  1. a leads (term 1), c is cut off; a and b commit 8 commands.
  2. b is elected (term 2; nextIndex[c] = its log end + 1), compacts its log and commits 3 more commands.
  3. c is reachable again.  b sends two append_entries (two heartbeat periods) before c's first answer
     is back (round trip > appendEntriesPeriod).  c rejects both with the same hint.
  4. rejection 1 arrives -> b ships its snapshot + the entries after it.  c installs and applies them.
  5. rejection 2 (outdated by now) arrives -> nextIndex is lowered again, b ships the snapshot again.
  6. c receives the second copy: snapshot index <= commit index -> "ignored", answered with commit+1 ...
     but the user deserializer has already put the old state back.

Exit code 1 + 'PROPERTY VIOLATED' when the defect shows, 0 otherwise.
"""
import os
import sys
import random
import pickle
import shutil
import logging
import tempfile
import collections

sys.path.insert(0, os.path.dirname(os.path.abspath(__file__)))

import pysyncobj.syncobj as _so
from pysyncobj import SyncObj, SyncObjConf, replicated
from pysyncobj.transport import Transport
from pysyncobj.node import Node

logging.disable(logging.CRITICAL)
random.seed(1)


# ----------------------------------------------------------------------------- harness
class Clock(object):
    t = 1000.0


_so.monotonicTime = lambda: Clock.t


class Net(object):
    """One FIFO queue per direction of a connection; a connection loss drops what is in flight."""

    def __init__(self):
        self.tr, self.q, self.up = {}, {}, set()

    def connect(self, a, b):
        self.up.add(frozenset((a, b)))
        self.q[(a, b)] = collections.deque()
        self.q[(b, a)] = collections.deque()
        self.tr[a].connected(b)
        self.tr[b].connected(a)

    def pending(self, a, b):
        return len(self.q.get((a, b), ()))

    def deliver(self, a, b, n=None):
        while (n is None or n > 0) and self.q.get((a, b)):
            msg = pickle.loads(self.q[(a, b)].popleft())
            self.tr[b]._onMessageReceived(Node(a), msg)
            if n is not None:
                n -= 1

    def deliverAll(self):
        for _ in range(50):
            busy = False
            for k in sorted(self.q):
                if self.q[k]:
                    self.deliver(*k)
                    busy = True
            if not busy:
                return


class SimTransport(Transport):
    def __init__(self, net, me):
        super(SimTransport, self).__init__(None, None, None)
        self.net, self.me, self.conn = net, me, set()
        net.tr[me] = self

    ready = True

    def tryGetReady(self): pass
    def waitReady(self): pass
    def addNode(self, node): pass
    def dropNode(self, node): pass
    def destroy(self): pass

    def connected(self, other):
        self.conn.add(other)
        self._onNodeConnected(Node(other))

    def send(self, node, message):
        if node.id not in self.conn:
            return False
        self.net.q[(self.me, node.id)].append(pickle.dumps(message))
        return True


# ----------------------------------------------------------------------------- replicated object
tmp = tempfile.mkdtemp(prefix='finding1-')
GLOBAL = {}      # log position -> value appended there (cluster-wide sequence)


class Hist(SyncObj):
    """Appends values to a list; snapshots go through user-supplied (de)serializer functions."""

    def __init__(self, me, others, net):
        self.me = me
        conf = SyncObjConf(autoTick=False, fullDumpFile=os.path.join(tmp, me + '.dump'),
                           serializer=self._serialize, deserializer=self._deserialize,
                           logCompactionMinEntries=10 ** 6, logCompactionMinTime=10 ** 6)
        super(Hist, self).__init__(Node(me), [Node(o) for o in others], conf=conf, nodeClass=Node,
                                   transport=SimTransport(net, me))
        self.hist = []

    # conf.serializer: "serializer(fileName, data); data - internal stuff that is required to be serialized
    # with your object data";  conf.deserializer: "called when restore from fullDump, should return data"
    def _serialize(self, fileName, data):
        with open(fileName, 'wb') as f:
            pickle.dump((list(self.hist), data), f)

    def _deserialize(self, fileName):
        with open(fileName, 'rb') as f:
            hist, data = pickle.load(f)
        self.hist = hist
        return data

    @replicated
    def put(self, x):
        pos = self.raftLastApplied + 1
        assert GLOBAL.setdefault(pos, x) == x, 'two commands at one position'
        self.hist.append(x)


net = Net()
ids = ['a', 'b', 'c']
objs = dict((i, Hist(i, [j for j in ids if j != i], net)) for i in ids)
A, B, C = objs['a'], objs['b'], objs['c']


def replay(upto):
    return [GLOBAL[p] for p in sorted(GLOBAL) if p <= upto]


def check(where):
    for i in ids:
        o = objs[i]
        exp = replay(o.raftLastApplied)
        if o.hist != exp:
            print('PROPERTY VIOLATED: C01/C09 (%s): node %s has raftLastApplied=%d (commit=%d) but its object state is\n'
                  '    %r\n  executing the common sequence up to position %d gives\n    %r'
                  % (where, i, o.raftLastApplied, o.raftCommitIndex, o.hist, o.raftLastApplied, exp))
            return False
    return True


def tick(*which, **kw):
    Clock.t += kw.get('dt', 0.0)
    for w in which:
        objs[w]._onTick(0.0)


def main():
    # 1. a and b only; a is elected, eight commands are committed
    net.connect('a', 'b')
    Clock.t += 5
    tick('a')
    net.deliverAll()
    assert A._isLeader()
    for i in range(8):
        A.put(i)
    for _ in range(4):
        tick('a', 'b', dt=0.2)
        net.deliverAll()
    assert A.raftLastApplied == B.raftLastApplied == 10 and check('setup')

    # 2. a pauses, b times out and is elected for term 2 (nextIndex[c] = b's log end + 1)
    for _ in range(10):
        tick('b', dt=0.5)
        net.deliverAll()
        tick('a')
        net.deliverAll()
        if B._isLeader():
            break
    assert B._isLeader() and not A._isLeader()
    for _ in range(4):
        tick('a', 'b', dt=0.11)
        net.deliverAll()
    B.forceLogCompaction()                      # b: snapshot, log trimmed
    tick('b', dt=0.11); net.deliverAll()
    tick('b', dt=0.11); net.deliverAll()
    for i in range(8, 11):
        B.put(i)
    for _ in range(4):
        tick('a', 'b', dt=0.11)
        net.deliverAll()
    assert B._SyncObj__raftLog[0][1] > 2, 'b did not compact'
    assert check('before c joins')

    # 3. c becomes reachable; two append_entries leave b before c's first answer is back
    net.connect('b', 'c')
    tick('b', dt=0.11)
    tick('b', dt=0.11)
    assert net.pending('b', 'c') == 2
    net.deliver('b', 'c')                       # c rejects both: two identical hints in flight
    assert net.pending('c', 'b') == 2

    # 4. first rejection -> snapshot + entries
    net.deliver('c', 'b', 1)
    tick('b', dt=0.11)
    first = net.pending('b', 'c')
    # 5. second (now outdated) rejection -> nextIndex lowered again -> snapshot once more
    net.deliver('c', 'b', 1)
    tick('b', dt=0.11)
    assert net.pending('b', 'c') > first

    # c receives the first copy and the entries behind it, applies them
    ok = True
    net.deliver('b', 'c', first)
    tick('c')
    ok = ok and check('after first snapshot + entries')
    assert C.raftLastApplied == B.raftLastApplied, 'c should be up to date now'
    applied = C.raftLastApplied

    # 6. c receives the second copy
    while net.pending('b', 'c'):
        net.deliver('b', 'c', 1)
        tick('c')
        assert C.raftLastApplied >= applied
        ok = ok and check('after the stale second snapshot')
        if not ok:
            break

    if ok:
        print('no violation')
        return 0

    # The damage is permanent: quiet period, then one more command
    net.deliverAll()
    net.connect('a', 'c')
    B.put(99)
    for _ in range(40):
        tick('a', 'b', 'c', dt=0.11)
        net.deliverAll()
    print('after healing, 4 more seconds and one more command:')
    for i in ids:
        print('   %s: leader=%s applied=%d state=%r' % (i, objs[i]._isLeader(), objs[i].raftLastApplied, objs[i].hist))
    if C.raftLastApplied == B.raftLastApplied and C.hist != B.hist:
        print('PROPERTY VIOLATED: C05: replicas at the same applied position hold different states after faults stopped')
    return 1


if __name__ == '__main__':
    try:
        rc = main()
    except AssertionError:
        # an assumption of the schedule itself (not the property) did not hold: no verdict
        import traceback
        traceback.print_exc()
        print('schedule could not be set up - no violation shown')
        rc = 0
    finally:
        shutil.rmtree(tmp, ignore_errors=True)
    sys.exit(rc)
