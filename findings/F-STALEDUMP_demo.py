#!/usr/bin/env python
"""
finding1 - C06 (and C09): a STALE snapshot received from the leader replaces the follower's own, NEWER dump
file on disk before it is recognised as stale.  Until the follower has rewritten its dump (next
__tryLogCompaction; up to logCompactionMinTime later with logCompactionSplit) the files on disk are
  dump    = state at index 12
  journal = entries 22, 23, 24...      (everything below was trimmed after the follower's own compaction)
A kill in that window leaves a pair of files that cannot be reconciled: the restarted node falls back to the
old dump, throws the journal away and forgets entries it acknowledged - among them a command that was
committed on the strength of exactly that acknowledgement and reported SUCCESS to the client.

Exit code 1 + 'PROPERTY VIOLATED: C06 ...' when the defect shows, 0 otherwise.
"""
import os, sys, shutil, pickle, random, collections, tempfile, gzip, logging

sys.path.insert(0, os.path.dirname(os.path.abspath(__file__)))
logging.disable(logging.CRITICAL)

import pysyncobj.syncobj as so
import pysyncobj.transport as tr
from pysyncobj import SyncObj, SyncObjConf, replicated
from pysyncobj.node import Node
from pysyncobj.transport import Transport

random.seed(1)


# ----------------------------------------------------------------------------- deterministic harness
class Clock(object):
    t = 1000.0

    def __call__(self):
        return self.t


CLOCK = Clock()
so.monotonicTime = CLOCK
tr.monotonicTime = CLOCK


class Net(object):
    """One FIFO queue per direction of every connection.  Nothing is lost or reordered while a
    connection is up; everything in flight is dropped when it goes down."""

    def __init__(self):
        self.transports = {}
        self.links = set()
        self.queues = collections.defaultdict(collections.deque)

    def up(self, a, b):
        return frozenset((a, b)) in self.links

    def connect(self, a, b):
        if a not in self.transports or b not in self.transports or self.up(a, b):
            return
        self.links.add(frozenset((a, b)))
        self.transports[a]._onNodeConnected(Node(b))
        self.transports[b]._onNodeConnected(Node(a))

    def disconnect(self, a, b):
        if not self.up(a, b):
            return
        self.links.discard(frozenset((a, b)))
        self.queues[(a, b)].clear()
        self.queues[(b, a)].clear()
        for x, y in ((a, b), (b, a)):
            if x in self.transports:
                self.transports[x]._onNodeDisconnected(Node(y))

    def deliver(self, src, dst, n=None):
        q = self.queues[(src, dst)]
        cnt = 0
        while q and (n is None or cnt < n):
            raw = q.popleft()
            cnt += 1
            if dst in self.transports and self.up(src, dst):
                self.transports[dst]._onMessageReceived(Node(src), pickle.loads(raw))

    def deliverAll(self, hold=()):
        for (src, dst) in sorted(self.queues.keys()):
            if (src, dst) not in hold:
                self.deliver(src, dst)


class SimTransport(Transport):
    def __init__(self, net, selfId):
        Transport.__init__(self, None, None, None)
        self.net, self.selfId = net, selfId
        net.transports[selfId] = self

    def send(self, node, message):
        if not self.net.up(self.selfId, node.id):
            return False
        self.net.queues[(self.selfId, node.id)].append(pickle.dumps(message, 2))
        return True


class KV(SyncObj):
    def __init__(self, selfId, others, conf, net):
        super(KV, self).__init__(Node(selfId), [Node(o) for o in others], conf=conf,
                                 nodeClass=Node, transport=SimTransport(net, selfId))
        self.applied = []

    @replicated
    def add(self, v):
        self.applied.append(v)
        return len(self.applied)


def logOf(o):
    j = getattr(o, '_SyncObj__raftLog')
    return [j[i] for i in range(len(j))]


def dumpIndex(path):
    with open(path, 'rb') as f:
        with gzip.GzipFile(fileobj=f) as g:
            return pickle.load(g)[1][1]


class Cluster(object):
    def __init__(self, ids, **confKw):
        self.ids = list(ids)
        self.net = Net()
        self.base = tempfile.mkdtemp(prefix='pso-finding-')
        self.confKw = confKw
        self.objs = {}
        self.gen = collections.defaultdict(int)
        for i in self.ids:
            os.makedirs(self.dir(i))
            self.start(i)

    def dir(self, i):
        return os.path.join(self.base, '%s-%d' % (i, self.gen[i]))

    def dumpPath(self, i):
        return os.path.join(self.dir(i), 'dump')

    def start(self, i):
        kw = dict(autoTick=False, journalFile=os.path.join(self.dir(i), 'journal'), fullDumpFile=self.dumpPath(i),
                  useFork=False, logCompactionMinEntries=10 ** 9, logCompactionMinTime=10 ** 9,
                  raftMinTimeout=1.0, raftMaxTimeout=2.0, appendEntriesPeriod=0.1, leaderFallbackTimeout=10 ** 6)
        kw.update(self.confKw)
        self.objs[i] = KV(i, [x for x in self.ids if x != i], SyncObjConf(**kw), self.net)
        return self.objs[i]

    def kill(self, i):
        """kill -9: connections drop, the next incarnation sees the files exactly as they are now."""
        for o in self.ids:
            if o != i:
                self.net.disconnect(i, o)
        self.net.transports.pop(i, None)
        old = self.dir(i)
        self.gen[i] += 1
        shutil.copytree(old, self.dir(i))      # the files as of the kill instant
        obj = self.objs.pop(i)
        try:
            obj._doDestroy()                   # only releases the mmap of the dead incarnation
        except Exception:
            pass

    def tick(self, i, dt=0.0):
        CLOCK.t += dt
        self.objs[i]._onTick(0.0)

    def step(self, dt=0.05, hold=()):
        CLOCK.t += dt
        for i in self.ids:
            if i in self.objs:
                self.objs[i]._onTick(0.0)
        self.net.deliverAll(hold)

    def run(self, n, dt=0.05, hold=()):
        for _ in range(n):
            self.step(dt, hold)

    def elect(self, i):
        setattr(self.objs[i], '_SyncObj__raftElectionDeadline', CLOCK.t - 1)   # i times out first
        self.run(8)
        assert self.objs[i]._isLeader(), 'setup problem: could not elect %s' % i


# ----------------------------------------------------------------------------- the schedule
def main():
    c = Cluster(['a', 'b', 'c'])
    net = c.net
    A, B, C = c.objs['a'], c.objs['b'], c.objs['c']
    success = []

    def cb(v):
        def f(res, err):
            if err == 0:
                success.append(v)
        return f

    c.step(0.0)
    # 1. b is cut off.  a leads {a, c}, ten commands are committed, c compacts its log.
    net.connect('a', 'c')
    c.elect('a')
    for v in range(10):
        A.add(v, callback=cb(v))
    c.run(10)
    C.forceLogCompaction()
    c.run(3)
    # 2. c becomes the leader (term 2): nextIndex[b] = last+1, although c's log now starts at index 11.
    c.elect('c')
    # 3. b joins.  The direction b -> c of that connection is slow from now on (held, never dropped).
    net.connect('b', 'c')
    HOLD = [('b', 'c')]
    c.run(4, 0.06, HOLD)              # two heartbeats reach b, b answers each with "reset, next=2"
    net.deliver('b', 'c', 1)          # the first answer arrives: c sends its snapshot (index 12) + what follows
    c.run(3, 0.06, HOLD)
    assert B.raftLastApplied == C.raftLastApplied, 'setup problem: b did not install the snapshot'
    # 4. ten more commands; b receives, applies them and compacts its own log: dump = index 23, journal = [22, 23]
    for v in range(10, 20):
        C.add(v, callback=cb(v))
    c.run(8, 0.06, HOLD)
    B.forceLogCompaction()
    c.run(3, 0.06, HOLD)
    ownDump = dumpIndex(c.dumpPath('b'))
    assert ownDump == B.raftLastApplied == 23 and logOf(B)[0][1] == 22, 'setup problem'
    # 5. a is partitioned from c.  X is committed by c and b alone.
    net.disconnect('a', 'c')
    C.add('X', callback=cb('X'))
    c.run(3, 0.06, HOLD)              # X (index 24) reaches b, b stores and acknowledges it (ack queued behind the rest)
    assert logOf(B)[-1][1] == 24
    # 6. the second, by now outdated "reset, next=2" of step 3 finally arrives at c; c ticks before the
    #    acknowledgements behind it arrive: nextIndex[b] = 2 <= first log index -> c sends its OLD snapshot (index 12)
    net.deliver('b', 'c', 1)
    c.tick('c', 0.11)
    net.deliver('b', 'c')             # all acknowledgements of b arrive
    c.tick('c', 0.0)                  # c commits X with b's acknowledgement and applies it
    assert 'X' in success, 'setup problem: X not committed'
    # 7. b receives the stale snapshot.  It is recognised as stale (state and log are kept) ...
    net.deliver('c', 'b')
    assert B.applied[-1] == 19 and logOf(B)[0][1] == 22
    staleDump = dumpIndex(c.dumpPath('b'))
    print('b: own dump was at index %d; after the stale snapshot the dump file is at index %d, journal starts at %d'
          % (ownDump, staleDump, logOf(B)[0][1]))
    ackedByB = logOf(B)[-1][1]
    # 8. ... and b is killed before its next tick renews the dump.
    c.kill('b')
    B = c.start('b')
    c.tick('b')
    lastAfter = logOf(B)[-1][1]
    print('b acknowledged entries up to index %d; after kill + restart its log ends at index %d, applied=%r'
          % (ackedByB, lastAfter, B.applied))
    # 9. c dies too.  a and b are a majority; neither has X.
    c.kill('c')
    net.connect('a', 'b')
    c.elect('a')
    A.add('Y', callback=cb('Y'))
    c.run(20)
    print('SUCCESS was reported for: %r' % (success,))
    print('a applied %r' % (A.applied,))
    print('b applied %r' % (B.applied,))
    shutil.rmtree(c.base, ignore_errors=True)

    if lastAfter < ackedByB or 'X' not in A.applied or 'X' not in B.applied:
        print('PROPERTY VIOLATED: C06 - node b acknowledged entries up to index %d but recovered only up to %d '
              'after a kill; command X was reported SUCCESS and is missing from the majority {a, b} '
              '(root cause: a stale snapshot from the leader overwrote b\'s newer dump file, C09: the dump on '
              'disk went from index %d back to %d under a journal starting at 22)' % (ackedByB, lastAfter, ownDump, staleDump))
        return 1
    print('no violation')
    return 0


if __name__ == '__main__':
    sys.exit(main())
