#!/usr/bin/env python3
"""
finding4.py  -  C02: a forwarding node matches 'apply_command_response' messages to its pending callbacks by a bare
                per-process counter (request_id 1, 2, 3 ...).  After a restart the counter starts at 1 again, while a
                peer may still hold a command forwarded by the previous incarnation in its command queue
                (commandsWaitLeader keeps it there while that peer knows no leader).  The peer's late answer for the OLD
                command is taken for the answer to the NEW command with the same number:

                the callback of a command reports NOT_LEADER ("never applied on any node")
                - and the command is committed and applied on every node.

Schedule (3 nodes, ReplCounter consumer, in-memory transport, virtual clock, manual ticks):
  1. A is leader (term 1).  A's messages to C are slow, C's election timer fires: C asks for votes (term 2).
  2. B submits counter.add(10) -> forwarded to A as request 1; A has it in its command queue.
  3. Before A's next tick C's request_vote reaches A: A steps down and votes for C.  A knows no leader now, so the queued
     command stays queued.  C wins the election.  C's first append_entries to A are still on their way.
  4. B crashes and restarts (fresh process, same address), reconnects, learns that C is leader and catches up.
  5. The new B submits counter.inc() -> forwarded to C as request 1 (its counter restarted).  C appends it and answers.
  6. A finally hears from C, looks at its queue: "not leader" -> sends apply_command_response{request_id 1, NOT_LEADER}
     to B.  It reaches B before C's answer does.  B fires the callback of inc() with NOT_LEADER.
  7. C's answer {request_id 1, log_idx, log_term} finds no callback any more and is dropped; inc() is committed and
     applied everywhere.

Only delays, one crash/restart and the connection loss that goes with it are used; every live connection is FIFO and
loss-free.

exit 1 + 'PROPERTY VIOLATED: C02 ...' when the defect shows, 0 otherwise.
"""
import os
import sys
import pickle
import random
import collections

sys.path.insert(0, os.path.dirname(os.path.abspath(__file__)))

import pysyncobj.syncobj as _so
import pysyncobj.transport as _tr
from pysyncobj import SyncObj, SyncObjConf, FAIL_REASON
from pysyncobj.node import Node
from pysyncobj.transport import Transport


# --------------------------------------------------------------------------------------------------------------------
# deterministic harness: virtual clock + in-memory network with one FIFO queue per directed link
# --------------------------------------------------------------------------------------------------------------------
class Clock(object):
    def __init__(self):
        self.t = 1000.0

    def __call__(self):
        return self.t


CLOCK = Clock()
_so.monotonicTime = CLOCK
_tr.monotonicTime = CLOCK


class Net(object):
    """Connections are per unordered pair.  A live connection delivers in order and loses nothing; a disconnect loses
    everything in flight in both directions (TCP semantics)."""

    def __init__(self):
        self.transports = {}
        self.up = set()
        self.queues = collections.defaultdict(collections.deque)
        self.held = set()  # directed links whose messages are currently delayed

    def connect(self, a, b):
        key = frozenset((a, b))
        if key in self.up:
            return
        self.up.add(key)
        self.transports[a]._onNodeConnected(Node(b))
        self.transports[b]._onNodeConnected(Node(a))

    def disconnect(self, a, b):
        key = frozenset((a, b))
        if key not in self.up:
            return
        self.up.discard(key)
        self.queues[(a, b)].clear()
        self.queues[(b, a)].clear()
        for x, y in ((a, b), (b, a)):
            if x in self.transports:
                self.transports[x]._onNodeDisconnected(Node(y))

    def send(self, src, dst, message):
        if frozenset((src, dst)) not in self.up:
            return False
        self.queues[(src, dst)].append(pickle.dumps(message))
        return True

    def deliverLink(self, src, dst, count=None):
        q = self.queues[(src, dst)]
        n = 0
        while q and (count is None or n < count):
            msg = pickle.loads(q.popleft())
            self.transports[dst]._onMessageReceived(Node(src), msg)
            n += 1
        return n

    def deliverAll(self):
        progress = True
        while progress:
            progress = False
            for (src, dst) in sorted(self.queues):
                if (src, dst) in self.held:
                    continue
                if self.deliverLink(src, dst):
                    progress = True


class MemTransport(Transport):
    def __init__(self, net, selfId):
        super(MemTransport, self).__init__(None, None, None)
        self.net = net
        self.id = selfId
        net.transports[selfId] = self

    def send(self, node, message):
        return self.net.send(self.id, node.id, message)


def makeConf(**kw):
    args = dict(autoTick=False, raftMinTimeout=10.0, raftMaxTimeout=20.0, appendEntriesPeriod=0.5,
                connectionTimeout=40.0, leaderFallbackTimeout=100.0, commandsWaitLeader=True,
                appendEntriesUseBatch=True, logCompactionMinEntries=100000, logCompactionMinTime=1000000,
                dynamicMembershipChange=False)
    args.update(kw)
    return SyncObjConf(**args)


class Cluster(object):
    def __init__(self, ids, factory):
        self.net = Net()
        self.ids = list(ids)
        self.objs = {}
        self.factory = factory
        for i in self.ids:
            self.start(i)
        for i, a in enumerate(self.ids):
            for b in self.ids[i + 1:]:
                self.net.connect(a, b)

    def start(self, i):
        transport = MemTransport(self.net, i)
        self.objs[i] = self.factory(Node(i), [Node(j) for j in self.ids if j != i], transport)
        return self.objs[i]

    def tickAll(self, only=None):
        for i in self.ids:
            if i in self.objs and (only is None or i in only):
                self.objs[i]._onTick(0.0)

    def run(self, duration, dt=0.25, only=None):
        steps = int(round(duration / dt))
        for _ in range(steps):
            CLOCK.t += dt
            self.tickAll(only)
            self.net.deliverAll()

    def leader(self):
        leaders = [i for i in self.ids if i in self.objs and self.objs[i]._isLeader()]
        return leaders[0] if len(leaders) == 1 else None

    def electLeader(self):
        for _ in range(400):
            self.run(0.25)
            l = self.leader()
            if l is not None and all(o._getLeader() is not None and o._getLeader().id == l for o in self.objs.values()):
                self.run(2.0)
                return l
        raise RuntimeError('no leader elected')


# --------------------------------------------------------------------------------------------------------------------
# scenario
# --------------------------------------------------------------------------------------------------------------------
from pysyncobj.batteries import ReplCounter


def main():
    random.seed(1)
    counters = {}

    def factory(selfNode, others, transport):
        counters[selfNode.id] = ReplCounter()
        return SyncObj(selfNode, others, conf=makeConf(), consumers=[counters[selfNode.id]], nodeClass=Node,
                       transport=transport)

    cl = Cluster(['a', 'b', 'c'], factory)
    net = cl.net
    A = cl.electLeader()
    B, C = [i for i in cl.ids if i != A]
    calls = collections.defaultdict(list)

    def cb(tag):
        def f(res, err):
            calls[tag].append((res, err))
        return f

    counters[A].set(100, callback=cb('init'))
    cl.run(2.0)
    assert [counters[i].get() for i in cl.ids] == [100, 100, 100]

    # 1. slow link A -> C; C's election timer fires.  C's own messages are slow, too (they are delivered below).
    net.held.update([(A, C), (C, A), (C, B)])
    for _ in range(200):
        cl.run(0.25)
        if cl.objs[C].raftCurrentTerm == 2:
            break
    assert cl.objs[C].raftCurrentTerm == 2 and cl.objs[A]._isLeader() and cl.objs[B]._getLeader().id == A

    # 2. B submits add(10); forwarded to A (request_id 1), A has received it
    counters[B].add(10, callback=cb('old'))
    cl.objs[B]._onTick(0.0)
    assert net.deliverLink(B, A) == 1

    # 3. C's request_vote reaches A before A ticks: A steps down and votes for C; C becomes leader
    net.deliverLink(C, A)
    assert not cl.objs[A]._isLeader() and cl.objs[A]._getLeader() is None
    net.held.discard((A, C))
    net.deliverLink(A, C)
    assert cl.objs[C]._isLeader() and cl.objs[C].raftCurrentTerm == 2
    CLOCK.t += 0.05
    cl.objs[A]._onTick(0.0)          # A knows no leader: the forwarded command stays in its queue
    assert not calls['old']

    # 4. B crashes and restarts as a fresh process; it reconnects, hears from C, catches up
    net.disconnect(B, A)
    net.disconnect(B, C)
    del cl.objs[B]
    cl.start(B)
    net.connect(B, A)
    net.connect(B, C)
    net.held.discard((C, B))
    for _ in range(8):
        CLOCK.t += 0.25
        cl.objs[C]._onTick(0.0)
        cl.objs[B]._onTick(0.0)
        net.deliverLink(C, B)
        net.deliverLink(B, C)
    assert cl.objs[B]._getLeader() is not None and cl.objs[B]._getLeader().id == C
    assert counters[B].get() == 100 and counters[C].get() == 100

    # 5. the new B submits inc(); forwarded to C (request_id 1 again); C appends it; C's answer is a little slow
    net.held.add((C, B))
    counters[B].inc(callback=cb('new'))
    cl.objs[B]._onTick(0.0)
    assert net.deliverLink(B, C) == 1
    CLOCK.t += 0.05
    cl.objs[C]._onTick(0.0)

    # 6. A hears from C at last, and answers the command it still has in its queue
    net.held.discard((C, A))
    net.deliverLink(C, A)
    assert cl.objs[A]._getLeader().id == C
    CLOCK.t += 0.05
    cl.objs[A]._onTick(0.0)
    net.deliverLink(A, B)
    reportedEarly = list(calls['new'])

    # 7. everything flows again
    net.held.clear()
    cl.run(5.0)

    values = dict((i, counters[i].get()) for i in cl.ids)
    print('roles: A(old leader)=%s  B(restarted client)=%s  C(new leader)=%s' % (A, B, C))
    print('callback of inc() on B      :', calls['new'], '(NOT_LEADER = %d)' % FAIL_REASON.NOT_LEADER)
    print('counter per node at the end :', values, '(100 before inc())')
    assert len(set(values.values())) == 1
    assert reportedEarly == calls['new'] and len(calls['new']) == 1, calls['new']

    res, err = calls['new'][0]
    applied = values[A] == 101
    if err in (FAIL_REASON.NOT_LEADER, FAIL_REASON.QUEUE_FULL, FAIL_REASON.MISSING_LEADER, FAIL_REASON.REQUEST_DENIED,
               FAIL_REASON.DISCARDED) and applied:
        print('PROPERTY VIOLATED: C02 the callback of counter.inc() reported error %d (NOT_LEADER: never applied) but '
              'the command was committed and applied on every node (counter %r)' % (err, values))
        return 1
    print('ok')
    return 0


if __name__ == '__main__':
    sys.exit(main())
