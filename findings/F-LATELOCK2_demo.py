#!/usr/bin/env python3
"""
finding2.py - C16: a client that was TOLD that tryAcquire failed keeps the lock for ever; nobody else can
ever obtain it.

Schedule (3 voters L, X, F; lock clients A on F and B on X; autoUnlockTime 10 s; clocks agree):
  t=0    A.tryAcquire('L') on follower F: forwarded to leader L, L appends it and replicates it to X.
         L crashes before its answers reach F (everything in flight on L's connections is lost).
  t~1-3  X (the only one with the entry) wins the election, the entry commits, F applies acquire('L', A, 0).
         F's pending request was answered with LEADER_CHANGED when the leader changed:
         the application's callback got (None, LEADER_CHANGED) = "not acquired".
  later  A does nothing any more.  Its ReplLockManager, however, prolongs EVERY lock stored under its id
         (batteries.py:429-439, called from the thread at :497-504), also this one, which the application was
         told it did not get.  B calls tryAcquire once per second for 5 x autoUnlockTime: always False.

Root cause: ReplLockManager.tryAcquire (batteries.py:531-539) handles only the case "result True but late"; an
error result (LEADER_CHANGED / timeout: outcome open, C02) is passed to the application as a failure without
any compensation, while the command may still commit afterwards; the late-acquisition check can no longer run
(the callback is consumed), and prolongate() renews locks per client id, not per acknowledged acquisition.

Real SyncObj / ReplLockManager objects, in-memory transport, virtual clock; the prolongation thread is replaced
by a step function that executes the thread's loop body on the virtual clock.
Exit code 1 + 'PROPERTY VIOLATED: C16 ...' when the defect shows, 0 otherwise.
"""
import sys, os, random, pickle, collections, logging

sys.path.insert(0, os.path.dirname(os.path.abspath(__file__)))
logging.disable(logging.CRITICAL)

import pysyncobj.syncobj as so
import pysyncobj.batteries as batteries
from pysyncobj import SyncObj, SyncObjConf, FAIL_REASON
from pysyncobj.batteries import ReplLockManager
from pysyncobj.transport import Transport
from pysyncobj.node import Node, TCPNode

U = 10.0          # autoUnlockTime
T0 = 1000.0       # virtual epoch


# ---------------------------------------------------------------- virtual clock (shared by all nodes: clocks agree)
class Clock(object):
    now = T0

    def __call__(self):
        return Clock.now


class FakeTimeModule(object):
    @staticmethod
    def time():
        return Clock.now

    @staticmethod
    def sleep(x):
        import time as _t
        _t.sleep(0.001)


so.monotonicTime = Clock()
batteries.time = FakeTimeModule      # ReplLockManager uses time.time()


# ---------------------------------------------------------------- in-memory network with TCP semantics
class Net(object):
    def __init__(self):
        self.tr = {}
        self.up = {}
        self.q = collections.OrderedDict()
        self.roCounter = collections.defaultdict(int)
        self.held = set()      # directed links whose frames are delayed (still in order, nothing lost)

    def connect(self, a, b):
        key = frozenset((a, b))
        if self.up.get(key):
            return
        self.up[key] = True
        self.q[(a, b)] = collections.deque()
        self.q[(b, a)] = collections.deque()
        for x, y in ((self.tr[a], self.tr[b]), (self.tr[b], self.tr[a])):
            if y.readonly:   # what TCPTransport does for an incoming 'readonly' connection
                node = Node(str(self.roCounter[x.name]))
                self.roCounter[x.name] += 1
                x.peer[y.name] = node
                x.names[node] = y.name
                x._onReadonlyNodeConnected(node)
            else:
                node = TCPNode(y.name)
                x.peer[y.name] = node
                x.names[node] = y.name
                x._onNodeConnected(node)

    def disconnect(self, a, b):
        key = frozenset((a, b))
        if not self.up.get(key):
            return
        self.up[key] = False
        self.q.pop((a, b), None)      # everything in flight is lost with the connection
        self.q.pop((b, a), None)
        for x, y in ((self.tr[a], self.tr[b]), (self.tr[b], self.tr[a])):
            node = x.peer.get(y.name)
            if node is None:
                continue
            if y.readonly:
                x.peer.pop(y.name)
                x.names.pop(node)
                x._onReadonlyNodeDisconnected(node)
            else:
                x._onNodeDisconnected(node)

    def deliverAll(self):
        progress = True
        while progress:
            progress = False
            for k in list(self.q):
                if k in self.held:
                    continue
                while self.q.get(k):
                    raw = self.q[k].popleft()
                    src, dst = k
                    t = self.tr[dst]
                    t._onMessageReceived(t.peer[src], pickle.loads(raw))
                    progress = True


class SimTransport(Transport):
    def __init__(self, net, name, readonly):
        Transport.__init__(self, None, None, [])
        self.net, self.name, self.readonly = net, name, readonly
        self.peer, self.names = {}, {}
        net.tr[name] = self

    def send(self, node, message):
        name = self.names.get(node)
        if name is None and node.id in self.net.tr:
            name = node.id
        if name is None or not self.net.up.get(frozenset((self.name, name))):
            return False
        self.net.q[(self.name, name)].append(pickle.dumps(message))
        return True


def makeLockManager(selfID):
    lm = ReplLockManager(autoUnlockTime=U, selfID=selfID)
    # Stop the real-time thread before the manager is attached to a SyncObj (it cannot have done anything yet);
    # its loop body is executed by autoProlongStep() below on the virtual clock.
    lm.destroy()
    lm._ReplLockManager__thread.join()
    return lm


def autoProlongStep(lm):
    """One iteration of ReplLockManager._autoAcquireThread (batteries.py:497-504)."""
    now = Clock.now
    if now - lm._ReplLockManager__lastProlongateTime < float(U) / 4.0:
        return
    syncObj = lm._ReplLockManager__lockImpl._syncObj
    if syncObj is None:
        return
    if syncObj._getLeader() is not None:
        lm._ReplLockManager__lastProlongateTime = now
        lm._ReplLockManager__lockImpl.prolongate(lm._ReplLockManager__selfID, now)



def scenario(seed):
    random.seed(seed)
    Clock.now = T0
    net = Net()
    voters = ['v1:1', 'v2:1', 'v3:1']
    objs, lms = {}, {}
    for name in voters:
        lms[name] = makeLockManager('client-' + name)
        conf = SyncObjConf(autoTick=False, commandsWaitLeader=True)
        tr = SimTransport(net, name, False)
        objs[name] = SyncObj(name, [v for v in voters if v != name], conf=conf, consumers=[lms[name]], transport=tr)
    for i, a in enumerate(voters):
        for b in voters[i + 1:]:
            net.connect(a, b)
    alive = set(voters)

    def run(duration, dt=0.05):
        end = Clock.now + duration - 1e-9
        while Clock.now < end:
            Clock.now += dt
            for n in voters:
                if n in alive:
                    autoProlongStep(lms[n])
                    objs[n]._onTick(0.0)
            net.deliverAll()

    def runUntil(cond, limit, dt=0.05):
        end = Clock.now + limit
        while Clock.now < end:
            if cond():
                return True
            run(dt, dt)
        return cond()

    def leaders():
        return [v for v in voters if v in alive and objs[v]._isLeader()]

    run(3.0)
    if len(leaders()) != 1:
        return None
    L = leaders()[0]
    X, F = [v for v in voters if v != L]
    if any(objs[v]._getLeader() is None or objs[v]._getLeader().id != L for v in (X, F)):
        return None
    base = Clock.now

    def rel():
        return Clock.now - base

    A, B = lms[F], lms[X]
    resA, resB = [], []

    # ---- t=0: A.tryAcquire on the follower F; the answers of L to F are still in flight when L crashes
    net.held.add((L, F))
    logLenX = objs[X].getStatus()['log_len']
    A.tryAcquire('L', callback=lambda r, e: resA.append((r, e, round(rel(), 2))))
    if not runUntil(lambda: objs[X].getStatus()['log_len'] > logLenX, 1.0):     # the entry has reached X
        return None
    for n in voters:
        if n != L:
            net.disconnect(L, n)        # L crashes: frames in flight are lost with the connections
    alive.discard(L)
    net.held.clear()

    # ---- a new leader; A's callback fires
    if not runUntil(lambda: len(leaders()) == 1 and resA, 10.0):
        return None
    run(1.0)
    if not resA or len(resA) != 1:
        return None
    toldA = resA[0]
    if toldA[0] or toldA[1] == FAIL_REASON.SUCCESS:
        return None                      # (acquired normally: not the schedule we are after)

    # ---- from now on the application on F does nothing.  B tries to get the lock for 5 x autoUnlockTime.
    bGotIt = False
    aSawItself = False
    end = rel() + 5 * U
    while rel() < end and not bGotIt:
        resB[:] = []
        B.tryAcquire('L', callback=lambda r, e: resB.append((r, e, round(rel(), 2))))
        run(1.0)
        if resB and resB[0][0]:
            bGotIt = True
        aSawItself = aSawItself or A.isAcquired('L')
    table = lms[X]._ReplLockManager__lockImpl._ReplLockManagerImpl__locks
    return dict(seed=seed, L=L, F=F, X=X, toldA=toldA, bGotIt=bGotIt, lastB=resB[0] if resB else None,
                A_isAcquired=A.isAcquired('L'), now=round(rel(), 2), holder=table.get('L', (None,))[0])


def main():
    for seed in range(200):
        info = scenario(seed)
        if info is None:
            continue
        print('schedule reached with', info)
        if not info['bGotIt']:
            print("PROPERTY VIOLATED: C16 lock never obtainable - client-%s was told at t=%.2f that tryAcquire('L') "
                  "failed (result %r, error %r = LEADER_CHANGED) and did nothing afterwards, yet %.0f s "
                  "(5 x autoUnlockTime) later the lock is still held by %s (kept alive by its automatic "
                  "prolongation) and every tryAcquire of client-%s failed"
                  % (info['F'], info['toldA'][2], info['toldA'][0], info['toldA'][1], info['now'], info['holder'],
                     info['X']))
            return 1
        print('no violation: the other client obtained the lock at', info['lastB'])
        return 0
    print('schedule not reached with any seed')
    return 0


if __name__ == '__main__':
    rc = main()
    sys.stdout.flush()
    os._exit(rc)
